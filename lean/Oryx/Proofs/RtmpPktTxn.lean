/-
  Helper lemmas for C03, part 4: the outstanding-transaction table as a function of the history of
  packets written and messages decoded (consume-once), and the first-match property of the typed waits.
-/
import Oryx.Proofs.RtmpPktDispatch
namespace Oryx.RtmpPkt
open Oryx Oryx.Res Oryx.Amf0 Oryx.Rtmp

/-! ### float64 key equality -/

theorem numEq_of_pos {a b : UInt64} (ha : isPositive a = true) (h : numEq a b = true) : a = b := by
  simp only [isPositive, isZero, numEq, Bool.and_eq_true, Bool.or_eq_true, beq_iff_eq, decide_eq_true_eq,
    Bool.not_eq_true'] at ha h
  rcases h.2 with h | h
  · exact h
  · have := h.1; omega

theorem numEq_self_of_pos {a : UInt64} (ha : isPositive a = true) : numEq a a = true := by
  simp only [isPositive, Bool.and_eq_true, Bool.not_eq_true'] at ha
  simp [numEq, ha.1.1]

theorem numEq_comm (a b : UInt64) : numEq a b = numEq b a := by
  unfold numEq
  by_cases h : a = b
  · subst h; rfl
  · have h' : ¬ b = a := fun e => h e.symm
    have e1 : (a == b) = false := by simp [h]
    have e2 : (b == a) = false := by simp [h']
    rw [e1, e2]
    cases isNaN a <;> cases isNaN b <;> cases isZero a <;> cases isZero b <;> rfl

theorem pos_of_numEq {a b : UInt64} (ha : isPositive a = true) (h : numEq a b = true) : isPositive b = true := by
  rw [← numEq_of_pos ha h]; exact ha

/-! ### the table: every key positive -/

def AllPos (t : TxnTable) : Prop := ∀ e ∈ t, isPositive e.1 = true

theorem find_none_of_not_pos {t : TxnTable} (ht : AllPos t) {k : UInt64} (hk : isPositive k = false) : t.find k = none := by
  induction t with
  | nil => rfl
  | cons e rest ih =>
    obtain ⟨k', v⟩ := e
    have hp : isPositive k' = true := ht (k', v) (List.mem_cons_self ..)
    have hne : numEq k' k = false := by
      cases h : numEq k' k
      · rfl
      · have := pos_of_numEq hp h; rw [hk] at this; cases this
    simp only [TxnTable.find, hne, Bool.false_eq_true, if_false]
    exact ih (fun e he => ht e (List.mem_cons_of_mem _ he))

theorem find_erase {t : TxnTable} (ht : AllPos t) (k x : UInt64) :
    (t.erase k).find x = if numEq k x then none else t.find x := by
  induction t with
  | nil => simp [TxnTable.erase, TxnTable.find]
  | cons e rest ih =>
    obtain ⟨k', v⟩ := e
    have hp : isPositive k' = true := ht (k', v) (List.mem_cons_self ..)
    have ih' := ih (fun e he => ht e (List.mem_cons_of_mem _ he))
    simp only [TxnTable.erase] at ih' ⊢
    by_cases h1 : numEq k' k = true
    · -- the entry is deleted
      have hk : k' = k := numEq_of_pos hp h1
      simp only [List.filter, h1, Bool.not_true]
      rw [ih']
      by_cases h2 : numEq k x = true
      · simp [h2]
      · simp only [h2, Bool.false_eq_true, if_false, TxnTable.find]
        rw [hk]; simp [h2]
    · have h1' : numEq k' k = false := by simpa using h1
      simp only [List.filter, h1', Bool.not_false, TxnTable.find]
      by_cases h3 : numEq k' x = true
      · have hx : k' = x := numEq_of_pos hp h3
        have h2 : numEq k x = false := by rw [numEq_comm, ← hx]; exact h1'
        simp [h3, h2]
      · simp only [h3, Bool.false_eq_true, if_false]
        exact ih'

theorem find_append_single (t : TxnTable) (k : UInt64) (v : Bytes) (x : UInt64) :
    TxnTable.find (t ++ [(k, v)]) x = match t.find x with | some w => some w | none => if numEq k x then some v else none := by
  induction t with
  | nil => simp [TxnTable.find]
  | cons e rest ih =>
    obtain ⟨k', w⟩ := e
    simp only [List.cons_append, TxnTable.find]
    split
    · rfl
    · exact ih

theorem find_map_replace {t : TxnTable} (ht : AllPos t) (k : UInt64) (v : Bytes) (x : UInt64) :
    TxnTable.find (t.map (fun e => if numEq e.1 k then (e.1, v) else e)) x =
      match t.find x with | some w => if numEq k x then some v else some w | none => none := by
  induction t with
  | nil => simp [TxnTable.find]
  | cons e rest ih =>
    obtain ⟨k', w⟩ := e
    have hp : isPositive k' = true := ht (k', w) (List.mem_cons_self ..)
    have ih' := ih (fun e he => ht e (List.mem_cons_of_mem _ he))
    simp only [List.map_cons]
    by_cases h1 : numEq k' k = true
    · have hk : k' = k := numEq_of_pos hp h1
      simp only [h1, if_true, TxnTable.find]
      by_cases h3 : numEq k' x = true
      · have : numEq k x = true := by rw [← hk]; exact h3
        simp [h3, this]
      · simp only [h3, Bool.false_eq_true, if_false]; exact ih'
    · simp only [h1, if_false, TxnTable.find]
      by_cases h3 : numEq k' x = true
      · have hx : k' = x := numEq_of_pos hp h3
        have h2 : numEq k x = false := by
          rw [numEq_comm, ← hx]; simpa using h1
        simp [h3, h2]
      · simp only [h3, Bool.false_eq_true, if_false]; exact ih'

theorem find_insert {t : TxnTable} (ht : AllPos t) (k : UInt64) (hk : isPositive k = true) (v : Bytes) (x : UInt64) :
    (t.insert k v).find x = if numEq k x then some v else t.find x := by
  unfold TxnTable.insert
  by_cases hf : (t.find k).isSome = true
  · rw [if_pos hf, find_map_replace ht]
    by_cases h2 : numEq k x = true
    · have hx : k = x := numEq_of_pos hk h2
      subst hx
      obtain ⟨w, hw⟩ := Option.isSome_iff_exists.mp hf
      simp [hw, h2]
    · cases t.find x <;> simp [h2]
  · rw [if_neg hf, find_append_single]
    have hn : t.find k = none := by simpa using hf
    by_cases h2 : numEq k x = true
    · have hx : k = x := numEq_of_pos hk h2
      subst hx
      simp [hn, h2]
    · cases t.find x <;> simp [h2]

theorem allPos_erase {t : TxnTable} (ht : AllPos t) (k : UInt64) : AllPos (t.erase k) :=
  fun e he => ht e (List.mem_filter.mp he).1

theorem allPos_insert {t : TxnTable} (ht : AllPos t) (k : UInt64) (hk : isPositive k = true) (v : Bytes) :
    AllPos (t.insert k v) := by
  unfold TxnTable.insert
  split
  · intro e he
    obtain ⟨e', he', rfl⟩ := List.mem_map.mp he
    split
    · exact ht e' he'
    · exact ht e' he'
  · intro e he
    rcases List.mem_append.mp he with h | h
    · exact ht e h
    · simp at h; subst h; exact hk

/-! ### history -/

/-- One step of an endpoint's life: it writes a packet (`WritePacket`) or decodes a message
(`DecodeMessage`, whatever the message and the result). -/
inductive Op where
  | send (p : Packet)
  | recv (m : Msg)

def step (tbl : TxnTable) : Op → TxnTable
  | .send p => onPacketWritten tbl p
  | .recv m => (dispatchSt tbl m).2

/-- The table after a history, starting with no outstanding request (`NewProtocol`). -/
def run (ops : List Op) : TxnTable := ops.foldl step []

/-- The request a written packet registers: connect / createStream with a positive id and a name. -/
def requestOf (p : Packet) : Option (UInt64 × Bytes) :=
  match registers p with
  | some (t, n) => if isPositive t ∧ n.length > 0 then some (t, n) else none
  | none => none

/-- The transaction id a received message answers: an AMF command/data message whose body starts with
`_result` or `_error` and a number. -/
def responseTid (m : Msg) : Option UInt64 :=
  if m.payload.length = 0 then none else
  match Gen.Rtmp.decodeMessageArm m.hdr.ty with
  | .parseAMFObject =>
    match (if Gen.Rtmp.decodeMessageSkipsOneByte m.hdr.ty then sliceFrom m.payload 1 else ok m.payload) with
    | .ok p =>
      match strDec p with
      | .ok name =>
        match Gen.Rtmp.parseCommandArm name with
        | .response =>
          match sliceFrom p (Amf0.size (.str name)) >>= numDec with
          | .ok tid => some tid
          | _ => none
        | _ => none
      | _ => none
    | _ => none
  | _ => none

/-- Specification over the history: the name of the request with id `t` that is still awaiting its
response — the latest request written with that id, unless a response to it was decoded since. -/
def awaitStep (t : UInt64) (cur : Option Bytes) : Op → Option Bytes
  | .send p => match requestOf p with
    | some (t', n) => if numEq t' t then some n else cur
    | none => cur
  | .recv m => match responseTid m with
    | some t' => if numEq t' t then none else cur
    | none => cur

def awaiting (t : UInt64) (ops : List Op) : Option Bytes := ops.foldl (awaitStep t) none

theorem erase_of_find_none {t : TxnTable} {k : UInt64} (h : t.find k = none) : t.erase k = t := by
  induction t with
  | nil => rfl
  | cons e rest ih =>
    obtain ⟨k', v⟩ := e
    simp only [TxnTable.find] at h
    split at h
    · cases h
    · next hne =>
      simp only [TxnTable.erase, List.filter, hne, Bool.not_false] at ih ⊢
      rw [ih h]

/-- The table after `parseAMFObject`. -/
theorem parseAMFObject_tbl (tbl : TxnTable) (p : Bytes) :
    (parseAMFObject tbl p).2 =
      match strDec p with
      | .ok name =>
        match Gen.Rtmp.parseCommandArm name with
        | .response =>
          match sliceFrom p (Amf0.size (.str name)) >>= numDec with
          | .ok tid => tbl.erase tid
          | _ => tbl
        | _ => tbl
      | _ => tbl := by
  unfold parseAMFObject
  cases strDec p with
  | err k => rfl
  | panic => rfl
  | ok name =>
    simp only []
    by_cases hr : Gen.Rtmp.parseCommandArm name = .response
    · simp only [hr]
      cases (sliceFrom p (Amf0.size (.str name)) >>= numDec) with
      | err k => rfl
      | panic => rfl
      | ok tid =>
        simp only []
        cases hf : tbl.find tid with
        | none => simp only []; exact (erase_of_find_none hf).symm
        | some req => simp only [ctorResult_tbl]
    · simp only [hr, ctorResult_tbl]

theorem decodeWith_tbl (r : Res Kind × TxnTable) (p : Bytes) : (decodeWith r p).2 = r.2 := by
  obtain ⟨r, t⟩ := r
  cases r <;> rfl

/-- Decoding a message changes the table only by deleting the entry of the id it answers. -/
theorem dispatchSt_tbl (tbl : TxnTable) (m : Msg) :
    (dispatchSt tbl m).2 = match responseTid m with | some tid => tbl.erase tid | none => tbl := by
  unfold dispatchSt responseTid
  by_cases h0 : m.payload.length = 0
  · simp [h0]
  · simp only [h0, if_false]
    cases hs : (if Gen.Rtmp.decodeMessageSkipsOneByte m.hdr.ty = true then sliceFrom m.payload 1 else ok m.payload) with
    | err k => simp only []; cases Gen.Rtmp.decodeMessageArm m.hdr.ty <;> rfl
    | panic => simp only []; cases Gen.Rtmp.decodeMessageArm m.hdr.ty <;> rfl
    | ok p =>
      simp only []
      by_cases ha : Gen.Rtmp.decodeMessageArm m.hdr.ty = .parseAMFObject
      · simp only [ha, decodeWith_tbl, parseAMFObject_tbl]
        cases strDec p with
        | err k => rfl
        | panic => rfl
        | ok name =>
          simp only []
          by_cases hr : Gen.Rtmp.parseCommandArm name = .response
          · simp only [hr]
            cases (sliceFrom p (Amf0.size (.str name)) >>= numDec) <;> rfl
          · simp only [hr]
      · simp only [ha, decodeWith_tbl, ctorResult_tbl]

theorem onPacketWritten_eq (tbl : TxnTable) (p : Packet) :
    onPacketWritten tbl p = match requestOf p with | some (t, n) => tbl.insert t n | none => tbl := by
  unfold onPacketWritten requestOf
  cases registers p with
  | none => rfl
  | some tn =>
    obtain ⟨t, n⟩ := tn
    simp only []
    split <;> rfl

theorem requestOf_pos {p : Packet} {t : UInt64} {n : Bytes} (h : requestOf p = some (t, n)) : isPositive t = true := by
  unfold requestOf at h
  cases hr : registers p with
  | none => rw [hr] at h; cases h
  | some tn =>
    obtain ⟨t', n'⟩ := tn
    rw [hr] at h
    simp only [] at h
    split at h
    · next hc => injection h with h; injection h with h1 _; subst h1; exact hc.1
    · cases h

theorem step_allPos {tbl : TxnTable} (h : AllPos tbl) (op : Op) : AllPos (step tbl op) := by
  cases op with
  | send p =>
    simp only [step, onPacketWritten_eq]
    cases hr : requestOf p with
    | none => exact h
    | some tn => obtain ⟨t, n⟩ := tn; exact allPos_insert h t (requestOf_pos hr) n
  | recv m =>
    simp only [step, dispatchSt_tbl]
    cases responseTid m with
    | none => exact h
    | some tid => exact allPos_erase h tid

theorem step_find {tbl : TxnTable} (h : AllPos tbl) (op : Op) (t : UInt64) :
    (step tbl op).find t = awaitStep t (tbl.find t) op := by
  cases op with
  | send p =>
    simp only [step, awaitStep, onPacketWritten_eq]
    cases hr : requestOf p with
    | none => rfl
    | some tn => obtain ⟨t', n⟩ := tn; exact find_insert h t' (requestOf_pos hr) n t
  | recv m =>
    simp only [step, awaitStep, dispatchSt_tbl]
    cases responseTid m with
    | none => rfl
    | some tid => exact find_erase h tid t

theorem foldl_track (t : UInt64) : ∀ (ops : List Op) (tbl : TxnTable) (cur : Option Bytes), AllPos tbl → tbl.find t = cur →
    AllPos (ops.foldl step tbl) ∧ (ops.foldl step tbl).find t = ops.foldl (awaitStep t) cur
  | [], _, _, h, hc => ⟨h, hc⟩
  | op :: ops, tbl, cur, h, hc => by
    simp only [List.foldl_cons]
    exact foldl_track t ops (step tbl op) _ (step_allPos h op) (by rw [step_find h, hc])

/-- **The table is a function of the history**: after any sequence of packets written and messages
decoded, looking an id up finds exactly the request still awaiting its response. -/
theorem run_find (ops : List Op) (t : UInt64) : (run ops).find t = awaiting t ops :=
  (foldl_track t ops [] none (fun _ h => by cases h) rfl).2

theorem run_allPos (ops : List Op) : AllPos (run ops) :=
  (foldl_track 0 ops [] none (fun _ h => by cases h) rfl).1

theorem run_append (ops : List Op) (op : Op) : run (ops ++ [op]) = step (run ops) op := by
  simp [run, List.foldl_append]

/-- The kind of the response packet for the request named `req`. -/
def respKind (req : Bytes) : Option Kind := ctorKind (Gen.Rtmp.parseResponseArm req)

theorem unmarshal_kind {k : Kind} {data : Bytes} {p : Packet} (h : unmarshal k data = ok p) : p.kind = k := by
  cases k <;> rw [unmarshal] at h
  · rw [Res.bind_eq_ok] at h; obtain ⟨c, _, h⟩ := h
    split at h
    · cases h
    · split at h
      · cases h
      · injection h with h; subst h; rfl
  · rw [Res.bind_eq_ok] at h; obtain ⟨c, _, h⟩ := h
    split at h
    · cases h
    · injection h with h; subst h; rfl
  · rw [Res.bind_eq_ok] at h; obtain ⟨c, _, h⟩ := h
    injection h with h; subst h; rfl
  · rw [Res.bind_eq_ok] at h; obtain ⟨c, _, h⟩ := h
    rw [Res.bind_eq_ok] at h; obtain ⟨_, _, h⟩ := h
    rw [Res.bind_eq_ok] at h; obtain ⟨_, _, h⟩ := h
    injection h with h; subst h; rfl
  · rw [Res.bind_eq_ok] at h; obtain ⟨c, _, h⟩ := h
    rw [Res.bind_eq_ok] at h; obtain ⟨_, _, h⟩ := h
    rw [Res.bind_eq_ok] at h; obtain ⟨_, _, h⟩ := h
    rw [Res.bind_eq_ok] at h; obtain ⟨_, _, h⟩ := h
    rw [Res.bind_eq_ok] at h; obtain ⟨_, _, h⟩ := h
    injection h with h; subst h; rfl
  · rw [Res.bind_eq_ok] at h; obtain ⟨c, _, h⟩ := h
    rw [Res.bind_eq_ok] at h; obtain ⟨_, _, h⟩ := h
    rw [Res.bind_eq_ok] at h; obtain ⟨_, _, h⟩ := h
    rw [Res.bind_eq_ok] at h; obtain ⟨_, _, h⟩ := h
    injection h with h; subst h; rfl
  · rw [Res.bind_eq_ok] at h; obtain ⟨c, _, h⟩ := h
    rw [Res.bind_eq_ok] at h; obtain ⟨_, _, h⟩ := h
    split at h
    · rw [Res.bind_eq_ok] at h; obtain ⟨_, _, h⟩ := h
      injection h with h; subst h; rfl
    · injection h with h; subst h; rfl
  · split at h
    · cases h
    · rw [Res.bind_eq_ok] at h; obtain ⟨_, _, h⟩ := h
      injection h with h; subst h; rfl
  · split at h
    · cases h
    · rw [Res.bind_eq_ok] at h; obtain ⟨_, _, h⟩ := h
      injection h with h; subst h; rfl
  · split at h
    · cases h
    · rw [Res.bind_eq_ok] at h; obtain ⟨_, _, h⟩ := h
      rw [Res.bind_eq_ok] at h; obtain ⟨_, _, h⟩ := h
      injection h with h; subst h; rfl
  · split at h
    · cases h
    · simp only [] at h
      split at h
      · cases h
      · rw [Res.bind_eq_ok] at h; obtain ⟨_, _, h⟩ := h
        rw [Res.bind_eq_ok] at h; obtain ⟨_, _, h⟩ := h
        injection h with h; subst h; rfl

/-- What `DecodeMessage` does with a response (a message with `responseTid m = some tid`):
without an entry for the id it fails; with one it decodes the body as the response type of that
request — never as anything else. -/
theorem dispatchSt_response (tbl : TxnTable) (m : Msg) (tid : UInt64) (h : responseTid m = some tid) :
    (tbl.find tid = none → (dispatchSt tbl m).1 = err .generic) ∧
    (∀ req, tbl.find tid = some req → ∀ p, (dispatchSt tbl m).1 = ok p → respKind req = some p.kind) := by
  unfold responseTid at h
  unfold dispatchSt
  by_cases h0 : m.payload.length = 0
  · simp [h0] at h
  · simp only [h0, if_false] at h ⊢
    by_cases harm : Gen.Rtmp.decodeMessageArm m.hdr.ty = .parseAMFObject
    · simp only [harm] at h ⊢
      cases hs : (if Gen.Rtmp.decodeMessageSkipsOneByte m.hdr.ty = true then sliceFrom m.payload 1 else ok m.payload)
      case ok p =>
        rw [hs] at h
        simp only [] at h ⊢
        unfold parseAMFObject
        cases hn : strDec p
        case ok name =>
          rw [hn] at h
          simp only [] at h ⊢
          by_cases hc : Gen.Rtmp.parseCommandArm name = .response
          · simp only [hc] at h ⊢
            cases ht : (sliceFrom p (Amf0.size (.str name)) >>= numDec)
            case ok tid' =>
              rw [ht] at h
              simp only [] at h ⊢
              injection h with h; subst h
              constructor
              · intro hf; rw [hf]; rfl
              · intro req hf q hq
                rw [hf] at hq
                simp only [respKind, ctorResult] at hq ⊢
                cases hk : ctorKind (Gen.Rtmp.parseResponseArm req) with
                | none => rw [hk] at hq; cases hq
                | some k =>
                  rw [hk] at hq
                  simp only [decodeWith] at hq
                  rw [unmarshal_kind hq]
            all_goals (rw [ht] at h; cases h)
          · simp only [hc] at h; cases h
        all_goals (rw [hn] at h; cases h)
      all_goals (rw [hs] at h; cases h)
    · simp only [harm] at h; cases h

theorem dispatch_err_of_fst {tbl : TxnTable} {m : Msg} {e : EK} (h : (dispatchSt tbl m).1 = err e) : dispatch tbl m = err e := by
  unfold dispatch
  cases hd : dispatchSt tbl m with
  | mk r t => rw [hd] at h; simp only at h; subst h; rfl

theorem fst_of_dispatch_ok {tbl tbl' : TxnTable} {m : Msg} {p : Packet} (h : dispatch tbl m = ok (p, tbl')) :
    dispatchSt tbl m = (ok p, tbl') := by
  unfold dispatch at h
  cases hd : dispatchSt tbl m with
  | mk r t =>
    rw [hd] at h
    cases r with
    | ok q => simp only [ok.injEq, Prod.mk.injEq] at h; rw [h.1, h.2]
    | err k => cases h
    | panic => cases h

theorem find_some_pos {t : TxnTable} (ht : AllPos t) {x : UInt64} {v : Bytes} (h : t.find x = some v) : isPositive x = true := by
  cases hp : isPositive x
  · rw [find_none_of_not_pos ht hp] at h; cases h
  · rfl

/-! ### typed waits -/

/-- `Skips k tbl pre tbl'`: every message of `pre` decodes (threading the table from `tbl` to `tbl'`)
to a packet that is not a `k`. -/
inductive Skips (k : Kind) : TxnTable → List Msg → TxnTable → Prop where
  | nil (tbl : TxnTable) : Skips k tbl [] tbl
  | cons (tbl tbl' tbl'' : TxnTable) (m : Msg) (ms : List Msg) (p : Packet) (hd : dispatchSt tbl m = (ok p, tbl'))
      (hk : p.kind ≠ k) (tl : Skips k tbl' ms tbl'') : Skips k tbl (m :: ms) tbl''

theorem expectPacket_first (k : Kind) (pre : List Msg) (tbl tbl1 tbl2 : TxnTable) (hs : Skips k tbl pre tbl1)
    (m : Msg) (p : Packet) (hd : dispatchSt tbl1 m = (ok p, tbl2)) (hk : p.kind = k) (post : List Msg) :
    expectPacket k tbl (pre ++ m :: post) = (ok (m, p, post), tbl2) := by
  induction hs with
  | nil tbl => simp [expectPacket, hd, hk]
  | cons tbl tbl' tbl'' m' ms p' hd' hk' _ ih =>
    simp only [List.cons_append, expectPacket, hd', hk', if_false]
    exact ih hd

theorem expectPacket_error (k : Kind) (pre : List Msg) (tbl tbl1 tbl2 : TxnTable) (hs : Skips k tbl pre tbl1)
    (m : Msg) (e : EK) (hd : dispatchSt tbl1 m = (err e, tbl2)) (post : List Msg) :
    expectPacket k tbl (pre ++ m :: post) = (err e, tbl2) := by
  induction hs with
  | nil tbl => simp [expectPacket, hd]
  | cons tbl tbl' tbl'' m' ms p' hd' hk' _ ih =>
    simp only [List.cons_append, expectPacket, hd', hk', if_false]
    exact ih hd

theorem expectPacket_none (k : Kind) (pre : List Msg) (tbl tbl1 : TxnTable) (hs : Skips k tbl pre tbl1) :
    expectPacket k tbl pre = (err .eof, tbl1) := by
  induction hs with
  | nil tbl => rfl
  | cons tbl tbl' tbl'' m' ms p' hd' hk' _ ih =>
    simp only [expectPacket, hd', hk', if_false]
    exact ih

theorem expectMessage_first (types : List Nat) (hne : types ≠ []) (pre : List Msg) (hpre : ∀ x ∈ pre, x.hdr.ty ∉ types)
    (m : Msg) (hm : m.hdr.ty ∈ types) (post : List Msg) :
    expectMessage types (pre ++ m :: post) = ok (m, post) := by
  have hemp : types.isEmpty = false := by cases types <;> simp_all
  induction pre with
  | nil => simp [expectMessage, hm]
  | cons x xs ih =>
    have hx : x.hdr.ty ∉ types := hpre x (List.mem_cons_self ..)
    simp only [List.cons_append, expectMessage, hemp, hx, Bool.false_eq_true, false_or, if_false]
    exact ih (fun y hy => hpre y (List.mem_cons_of_mem _ hy))

theorem expectMessage_any (m : Msg) (post : List Msg) : expectMessage [] (m :: post) = ok (m, post) := by
  simp [expectMessage]

theorem expectMessage_none (types : List Nat) (hne : types ≠ []) (pre : List Msg) (hpre : ∀ x ∈ pre, x.hdr.ty ∉ types) :
    expectMessage types pre = err .eof := by
  have hemp : types.isEmpty = false := by cases types <;> simp_all
  induction pre with
  | nil => rfl
  | cons x xs ih =>
    have hx : x.hdr.ty ∉ types := hpre x (List.mem_cons_self ..)
    simp only [expectMessage, hemp, hx, Bool.false_eq_true, false_or, if_false]
    exact ih (fun y hy => hpre y (List.mem_cons_of_mem _ hy))

end Oryx.RtmpPkt
