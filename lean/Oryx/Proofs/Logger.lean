/-
  Helper lemmas for C18: allocator invariant, decimal round trip, prefix shapes, line structure.
-/
import Oryx.Model.Logger
namespace Oryx.Logger
open Oryx
open Oryx.Gen.Logger (CidAlloc)

/-! ## allocator -/

/-- The invariant of the atomic disciplines: every id handed out is ≤ the counter, ids are pairwise
distinct, every alias carries its source's id and that source exists. -/
def AllocInv (s : St) : Prop :=
  (∀ id ∈ s.ids, id ≤ s.counter) ∧ s.ids.Nodup ∧ (∀ p ∈ s.aliases, p.2 = p.1 ∧ p.1 ∈ s.ids)

theorem allocInv_init : AllocInv St.init := by
  refine ⟨?_, ?_, ?_⟩ <;> simp [St.init, St.ids]

theorem allocInv_step {m : CidAlloc} (hm : m ≠ .plainRMW) {s s' : St} {op : Op}
    (h : AllocInv s) (hs : exec m s op = some s') : AllocInv s' := by
  obtain ⟨hle, hnd, hal⟩ := h
  cases op with
  | add g =>
    simp only [exec, hm, if_false] at hs
    cases hs
    refine ⟨?_, ?_, ?_⟩
    · intro id hid
      simp only [St.ids, List.map_cons, List.mem_cons] at hid
      rcases hid with rfl | hid
      · exact Nat.le_refl _
      · exact Nat.le_succ_of_le (hle id hid)
    · simp only [St.ids, List.map_cons, List.nodup_cons]
      refine ⟨?_, hnd⟩
      intro hmem
      have := hle _ hmem
      omega
    · intro p hp
      obtain ⟨h1, h2⟩ := hal p hp
      exact ⟨h1, by simp only [St.ids, List.map_cons, List.mem_cons]; exact Or.inr h2⟩
  | load g => simp [exec, hm] at hs
  | store g => simp [exec, hm] at hs
  | «alias» g src =>
    simp only [exec] at hs
    split at hs
    · rename_i hsrc
      cases hs
      refine ⟨hle, hnd, ?_⟩
      intro p hp
      simp only [List.mem_cons] at hp
      rcases hp with rfl | hp
      · exact ⟨by simp [aliasCid, Gen.Logger.aliasCopiesSourceCid], hsrc⟩
      · exact hal p hp
    · cases hs

theorem allocInv_reach {m : CidAlloc} (hm : m ≠ .plainRMW) {s : St} (h : Reach m s) : AllocInv s := by
  induction h with
  | init => exact allocInv_init
  | step op _ hs ih => exact allocInv_step hm ih hs

theorem reach_of_run {m : CidAlloc} : ∀ (ops : List Op) (s s' : St), Reach m s → run m s ops = some s' → Reach m s' := by
  intro ops
  induction ops with
  | nil => intro s s' h hr; simp [run] at hr; subst hr; exact h
  | cons op ops ih =>
    intro s s' h hr
    simp only [run] at hr
    cases he : exec m s op with
    | none => simp [he] at hr
    | some s1 => simp only [he] at hr; exact ih s1 s' (.step op h he) hr

/-! ## decimal text -/

theorem digitChar_toNat : ∀ d : Fin 10, (digitChar d.val).toNat - 48 = d.val := by decide
theorem digitChar_props : ∀ d : Fin 10, digitChar d.val ≠ ']' ∧ digitChar d.val ≠ '\n' ∧ digitChar d.val ≠ '[' ∧
    digitChar d.val ≠ '-' := by decide

theorem undec_snoc (xs : List Char) (c : Char) : undec (xs ++ [c]) = undec xs * 10 + (c.toNat - 48) := by
  simp [undec, List.foldl_append]

theorem undec_decF : ∀ (f n : Nat), n < f → undec (decF f n) = n := by
  intro f
  induction f with
  | zero => intro n h; omega
  | succ f ih =>
    intro n h
    simp only [decF]
    split
    · rename_i h10
      have := digitChar_toNat ⟨n, h10⟩
      simp only [undec, List.foldl_cons, List.foldl_nil] at *
      omega
    · rename_i h10
      rw [undec_snoc, ih (n / 10) (by omega)]
      have := digitChar_toNat ⟨n % 10, Nat.mod_lt _ (by decide)⟩
      simp only at this
      omega

theorem undec_dec (n : Nat) : undec (dec n) = n := undec_decF _ _ (Nat.lt_succ_self n)

/-- A character that can occur in the decimal text of an int. -/
def numChar (c : Char) : Prop := c ≠ ']' ∧ c ≠ '\n' ∧ c ≠ '['

theorem decF_chars : ∀ (f n : Nat), ∀ c ∈ decF f n, numChar c ∧ c ≠ '-' := by
  intro f
  induction f with
  | zero => intro n c hc; simp [decF] at hc
  | succ f ih =>
    intro n c hc
    simp only [decF] at hc
    split at hc
    · rename_i h10
      simp only [List.mem_singleton] at hc
      subst hc
      have := digitChar_props ⟨n, h10⟩
      exact ⟨⟨this.1, this.2.1, this.2.2.1⟩, this.2.2.2⟩
    · simp only [List.mem_append, List.mem_singleton] at hc
      rcases hc with hc | hc
      · exact ih _ c hc
      · subst hc
        have := digitChar_props ⟨n % 10, Nat.mod_lt _ (by decide)⟩
        exact ⟨⟨this.1, this.2.1, this.2.2.1⟩, this.2.2.2⟩

theorem dec_chars (n : Nat) : ∀ c ∈ dec n, numChar c := fun c hc => (decF_chars _ _ c hc).1

theorem dec_head_ne_minus (n : Nat) : ∀ r, dec n ≠ '-' :: r := by
  intro r h
  have := (decF_chars (n + 1) n '-' (by show '-' ∈ dec n; rw [h]; simp)).2
  exact this rfl

theorem decInt_chars (i : Int) : ∀ c ∈ decInt i, numChar c := by
  intro c hc
  simp only [decInt] at hc
  split at hc
  · simp only [List.mem_cons] at hc
    rcases hc with rfl | hc
    · exact ⟨by decide, by decide, by decide⟩
    · exact dec_chars _ c hc
  · exact dec_chars _ c hc

theorem undecInt_decInt (i : Int) : undecInt (decInt i) = i := by
  simp only [decInt]
  split
  · simp only [undecInt, undec_dec]; omega
  · rename_i h
    have : ∀ l, dec i.natAbs = l → undecInt l = (undec l : Int) := by
      intro l hl
      cases l with
      | nil => rfl
      | cons c r =>
        by_cases hc : c = '-'
        · subst hc; exact absurd hl (dec_head_ne_minus _ _)
        · simp [undecInt]
          split
          · rename_i heq; simp at heq; exact absurd heq.1 hc
          · rfl
    rw [this _ rfl, undec_dec]; omega

/-! ## bracket scanning -/

theorem takeWhile_notClose (a rest : List Char) (h : ∀ c ∈ a, numChar c) :
    (a ++ ']' :: rest).takeWhile notClose = a ∧ (a ++ ']' :: rest).dropWhile notClose = ']' :: rest := by
  induction a with
  | nil => simp [notClose]
  | cons c a ih =>
    have hc : notClose c = true := by simp [notClose, (h c (by simp)).1]
    have := ih (fun c hc => h c (List.mem_cons_of_mem _ hc))
    simp [hc, this.1, this.2]

theorem parseBody_pid (pid : Nat) (c : Char) (rest : List Char) (hc : c ≠ '[') :
    parseBody ('[' :: (dec pid ++ ']' :: c :: rest)) = .pid pid := by
  obtain ⟨h1, h2⟩ := takeWhile_notClose (dec pid) (c :: rest) (dec_chars pid)
  simp only [parseBody, h2, h1, undec_dec]
  split
  · rename_i heq; simp at heq; exact absurd heq.1.symm (by simpa using hc.symm)
  · rfl
  · rename_i _ hx; exact (hx _ rfl).elim

theorem parseBody_pidCid (pid : Nat) (cid : Int) (rest : List Char) :
    parseBody ('[' :: (dec pid ++ ']' :: '[' :: (decInt cid ++ ']' :: rest))) = .pidCid pid cid := by
  obtain ⟨h1, h2⟩ := takeWhile_notClose (dec pid) ('[' :: (decInt cid ++ ']' :: rest)) (dec_chars pid)
  obtain ⟨h3, h4⟩ := takeWhile_notClose (decInt cid) rest (decInt_chars cid)
  simp only [parseBody, h2, h1, h3, h4, undec_dec, undecInt_decInt]

theorem parseBody_none (b : List Char) (h : b.head? ≠ some '[') : parseBody b = .none := by
  cases b with
  | nil => rfl
  | cons c r =>
    by_cases hc : c = '['
    · subst hc; simp at h
    · simp only [parseBody]
      split
      · rename_i heq; simp at heq; exact absurd heq.1 hc
      · rfl

/-! ## shapes of the prefixes (these evaluate the extracted format literals: gates) -/

theorem printlnPrefix_nil (pid : Nat) : printlnPrefix pid .nil = some ('[' :: (dec pid ++ [']', ' '])) := rfl
theorem printlnPrefix_obj (pid : Nat) (c : Int) :
    printlnPrefix pid (.obj c) = some ('[' :: (dec pid ++ ']' :: '[' :: (decInt c ++ [']', ' ']))) := rfl
theorem printlnPrefix_ctx (pid : Nat) (c : Int) :
    printlnPrefix pid (.ctxWith c) = some ('[' :: (dec pid ++ ']' :: '[' :: (decInt c ++ [']']))) := rfl
theorem printfPrefix_nil (pid : Nat) : printfPrefix pid .nil = '[' :: (dec pid ++ [']', ' ']) := rfl
theorem printfPrefix_obj (pid : Nat) (c : Int) :
    printfPrefix pid (.obj c) = '[' :: (dec pid ++ ']' :: '[' :: (decInt c ++ [']', ' '])) := rfl
theorem printfPrefix_ctx (pid : Nat) (c : Int) :
    printfPrefix pid (.ctxWith c) = '[' :: (dec pid ++ ']' :: '[' :: (decInt c ++ [']', ' '])) := rfl

theorem sprintln_cons (p : List Char) (ops : List (List Char)) :
    ∃ c rest, sprintln (p :: ops) = p ++ c :: rest ∧ (c = ' ' ∨ c = '\n') := by
  cases ops with
  | nil => exact ⟨'\n', [], rfl, Or.inr rfl⟩
  | cons a as => exact ⟨' ', sprintln (a :: as), rfl, Or.inl rfl⟩

theorem ensureNl_prefix (p : List Char) (msg : List Char) :
    ∃ rest, ensureNl (p ++ msg) = p ++ rest := by
  simp only [ensureNl]
  split
  · exact ⟨msg, rfl⟩
  · exact ⟨msg ++ ['\n'], by simp⟩

/-! ## one line -/

/-- The message carries no newline. -/
def Call.NoNl : Call → Prop
  | .println ops => ∀ o ∈ ops, '\n' ∉ o
  | .printf msg => '\n' ∉ msg

theorem sprintln_line (ops : List (List Char)) (h : ∀ o ∈ ops, '\n' ∉ o) :
    ∃ pre, sprintln ops = pre ++ ['\n'] ∧ '\n' ∉ pre := by
  induction ops with
  | nil => exact ⟨[], rfl, by simp⟩
  | cons a as ih =>
    cases as with
    | nil => exact ⟨a, rfl, h a (by simp)⟩
    | cons b bs =>
      obtain ⟨pre, hp, hn⟩ := ih (fun o ho => h o (List.mem_cons_of_mem _ ho))
      refine ⟨a ++ ' ' :: pre, by simp [sprintln, hp], ?_⟩
      simp only [List.mem_append, List.mem_cons, not_or]
      exact ⟨h a (by simp), by decide, hn⟩

theorem ensureNl_line (s : List Char) (h : '\n' ∉ s) : ∃ pre, ensureNl s = pre ++ ['\n'] ∧ '\n' ∉ pre := by
  simp only [ensureNl]
  split
  · rename_i hl
    have := List.mem_of_getLast? hl
    exact absurd this h
  · exact ⟨s, rfl, h⟩

theorem label_noNl (l : Level) : '\n' ∉ l.label := by cases l <;> decide

theorem numChars_noNl {a : List Char} (h : ∀ c ∈ a, numChar c) : '\n' ∉ a :=
  fun hm => (h _ hm).2.1 rfl

theorem printlnPrefix_noNl (pid : Nat) (ctx : Ctx) : ∀ p, printlnPrefix pid ctx = some p → '\n' ∉ p := by
  intro p hp
  have hd := numChars_noNl (dec_chars pid)
  cases ctx with
  | nil => rw [printlnPrefix_nil] at hp; cases hp; simp [hd]
  | obj c => rw [printlnPrefix_obj] at hp; cases hp; simp [hd, numChars_noNl (decInt_chars c)]
  | ctxWith c => rw [printlnPrefix_ctx] at hp; cases hp; simp [hd, numChars_noNl (decInt_chars c)]
  | ctxWithout => cases hp
  | other => cases hp

theorem printfPrefix_noNl (pid : Nat) (ctx : Ctx) : '\n' ∉ printfPrefix pid ctx := by
  have hd := numChars_noNl (dec_chars pid)
  cases ctx with
  | nil => rw [printfPrefix_nil]; simp [hd]
  | obj c => rw [printfPrefix_obj]; simp [hd, numChars_noNl (decInt_chars c)]
  | ctxWith c => rw [printfPrefix_ctx]; simp [hd, numChars_noNl (decInt_chars c)]
  | ctxWithout => simp [printfPrefix, printfPrefixSeen, Ctx.seen]
  | other => simp [printfPrefix, printfPrefixSeen, Ctx.seen, Gen.Logger.fallbackPassesOriginalCtx]

theorem body_line (pid : Nat) (ctx : Ctx) (call : Call) (h : call.NoNl) :
    ∃ pre, body pid ctx call = pre ++ ['\n'] ∧ '\n' ∉ pre := by
  cases call with
  | println ops =>
    simp only [body]
    cases hp : printlnPrefix pid ctx with
    | none => exact sprintln_line ops h
    | some p =>
      apply sprintln_line
      intro o ho
      simp only [List.mem_cons] at ho
      rcases ho with rfl | ho
      · exact printlnPrefix_noNl pid ctx _ hp
      · exact h o ho
  | printf msg =>
    simp only [body]
    apply ensureNl_line
    simp only [List.mem_append, not_or]
    exact ⟨printfPrefix_noNl pid ctx, h⟩

/-! ## reading lines back from the writer -/

/-- Split a byte stream at newlines: every newline terminates a line; an unterminated tail is dropped. -/
def splitNl : List Char → List Char → List (List Char)
  | _, [] => []
  | acc, c :: r => if c = '\n' then acc.reverse :: splitNl [] r else splitNl (c :: acc) r

theorem splitNl_line (acc pre rest : List Char) (h : '\n' ∉ pre) :
    splitNl acc (pre ++ '\n' :: rest) = (acc.reverse ++ pre) :: splitNl [] rest := by
  induction pre generalizing acc with
  | nil => simp [splitNl]
  | cons c pre ih =>
    have hc : c ≠ '\n' := fun e => h (by simp [e])
    have := ih (c :: acc) (fun hm => h (List.mem_cons_of_mem _ hm))
    simp [splitNl, hc, this]

theorem splitNl_lines (ls : List (List Char)) (h : ∀ l ∈ ls, '\n' ∉ l) :
    splitNl [] (ls.map (· ++ ['\n'])).flatten = ls := by
  induction ls with
  | nil => rfl
  | cons l ls ih =>
    have := splitNl_line [] l (ls.map (· ++ ['\n'])).flatten (h l (by simp))
    simp only [List.map_cons, List.flatten_cons, List.append_assoc, List.singleton_append, this,
      List.reverse_nil, List.nil_append]
    rw [ih (fun l hl => h l (List.mem_cons_of_mem _ hl))]

end Oryx.Logger
