/-
  RFC 3394 key wrap as written in cipher/key_wrap.go: `KeyUnwrap (KeyWrap cek) = cek` for ANY
  invertible 16-byte block function and every `cek` whose length is a multiple of 8.
-/
import Oryx.Model.Jose
namespace Oryx.Jose
open Oryx Oryx.Res

/-- The block-cipher assumption: on 16-byte blocks, `enc` keeps the length and `dec` inverts it. -/
def BlockPerm (enc dec : Bytes → Bytes) : Prop :=
  ∀ b : Bytes, b.length = 16 → (enc b).length = 16 ∧ dec (enc b) = b

theorem u8_xor_cancel (x y : UInt8) : (x ^^^ y) ^^^ y = x := by
  rw [UInt8.xor_assoc, UInt8.xor_self, UInt8.xor_zero]

theorem xorBytes_cancel : ∀ (a m : Bytes), a.length = m.length → xorBytes (xorBytes a m) m = a := by
  intro a
  induction a with
  | nil => intro m _; simp [xorBytes]
  | cons x xs ih =>
    intro m h
    cases m with
    | nil => simp at h
    | cons y ys =>
      have := ih ys (by simpa using h)
      simp only [xorBytes, List.zipWith_cons_cons] at this ⊢
      rw [u8_xor_cancel, this]

theorem xorBytes_length (a m : Bytes) (h : a.length = m.length) : (xorBytes a m).length = a.length := by
  simp [xorBytes, h]

/-- Shape invariant of the loop state: `A` is 8 bytes, `R` is `n` blocks of 8 bytes. -/
structure KwInv (n : Nat) (s : KwState) : Prop where
  a : s.a.length = 8
  r : s.r.length = n
  blocks : ∀ x ∈ s.r, x.length = 8

theorem getD_block {n : Nat} {s : KwState} (h : KwInv n s) (i : Nat) (hi : i < n) :
    (s.r.getD i []).length = 8 ∧ s.r[i]? = some (s.r.getD i []) := by
  have hi' : i < s.r.length := by rw [h.r]; exact hi
  rw [List.getD_eq_getElem?_getD, List.getElem?_eq_getElem hi']
  exact ⟨h.blocks _ (List.getElem_mem hi'), rfl⟩

theorem wrapStep_inv {enc dec : Bytes → Bytes} (hp : BlockPerm enc dec) {n t : Nat} (hn : 0 < n)
    {s : KwState} (h : KwInv n s) : KwInv n (wrapStep enc n t s) := by
  have hi := Nat.mod_lt t hn
  obtain ⟨hb, _⟩ := getD_block h (t % n) hi
  have hlen := (hp (s.a ++ s.r.getD (t % n) []) (by rw [List.length_append, h.a, hb])).1
  unfold wrapStep
  generalize enc (s.a ++ s.r.getD (t % n) []) = B at hlen
  refine ⟨?_, ?_, ?_⟩
  · show (xorBytes (B.take 8) (be 8 (t + 1))).length = 8
    rw [xorBytes_length _ _ (by rw [be_length, List.length_take, hlen]; rfl), List.length_take, hlen]; rfl
  · show (s.r.set (t % n) (B.drop 8)).length = n
    rw [List.length_set, h.r]
  · intro x hx
    rcases List.mem_or_eq_of_mem_set hx with hx | rfl
    · exact h.blocks x hx
    · rw [List.length_drop, hlen]

theorem wrapUpTo_inv {enc dec : Bytes → Bytes} (hp : BlockPerm enc dec) {n : Nat} (hn : 0 < n)
    {s : KwState} (h : KwInv n s) : ∀ c, KwInv n (wrapUpTo enc n c s)
  | 0 => h
  | c+1 => wrapStep_inv hp hn (wrapUpTo_inv hp hn h c)

/-- One unwrapping iteration undoes the wrapping iteration with the same `t`. -/
theorem unwrapStep_wrapStep {enc dec : Bytes → Bytes} (hp : BlockPerm enc dec) {n t : Nat} (hn : 0 < n)
    {s : KwState} (h : KwInv n s) : unwrapStep dec n t (wrapStep enc n t s) = s := by
  have hi := Nat.mod_lt t hn
  obtain ⟨hb, hget⟩ := getD_block h (t % n) hi
  have hi' : t % n < s.r.length := by rw [h.r]; exact hi
  obtain ⟨hlen, hdec⟩ := hp (s.a ++ s.r.getD (t % n) []) (by rw [List.length_append, h.a, hb])
  -- name the encrypted block
  generalize hB : enc (s.a ++ s.r.getD (t % n) []) = B at hlen hdec
  have hx : xorBytes (xorBytes (B.take 8) (be 8 (t + 1))) (be 8 (t + 1)) = B.take 8 :=
    xorBytes_cancel _ _ (by simp [be_length, hlen])
  have hset : ((s.r.set (t % n) (B.drop 8)).getD (t % n) []) = B.drop 8 := by
    rw [List.getD_eq_getElem?_getD, List.getElem?_set_self hi']; rfl
  have htd : B.take 8 ++ B.drop 8 = B := List.take_append_drop 8 B
  cases s with
  | mk a r =>
    simp only [unwrapStep, wrapStep, hB, hx, hset, htd, hdec] at *
    have h1 : (a ++ r.getD (t % n) []).take 8 = a := take_append_len _ _ h.a
    have h2 : (a ++ r.getD (t % n) []).drop 8 = r.getD (t % n) [] := drop_append_len _ _ h.a
    rw [h1, h2, List.set_set]
    congr 1
    have : r.getD (t % n) [] = r[t % n] := by
      rw [List.getD_eq_getElem?_getD, List.getElem?_eq_getElem hi']; rfl
    rw [this]; exact List.set_getElem_self hi'

theorem unwrapDown_wrapUpTo {enc dec : Bytes → Bytes} (hp : BlockPerm enc dec) {n : Nat} (hn : 0 < n)
    {s : KwState} (h : KwInv n s) : ∀ c, unwrapDown dec n c (wrapUpTo enc n c s) = s
  | 0 => rfl
  | c+1 => by
    simp only [unwrapDown, wrapUpTo]
    rw [unwrapStep_wrapStep hp hn (wrapUpTo_inv hp hn h c)]
    exact unwrapDown_wrapUpTo hp hn h c

/-! ### blocks -/

theorem chunks8_length (n : Nat) (b : Bytes) : (chunks8 n b).length = n := by
  induction n generalizing b with
  | zero => rfl
  | succ n ih => simp [chunks8, ih]

theorem chunks8_blocks (n : Nat) (b : Bytes) (h : b.length = 8 * n) : ∀ x ∈ chunks8 n b, x.length = 8 := by
  induction n generalizing b with
  | zero => intro x hx; simp [chunks8] at hx
  | succ n ih =>
    intro x hx
    simp only [chunks8, List.mem_cons] at hx
    rcases hx with rfl | hx
    · simp [List.length_take]; omega
    · exact ih (b.drop 8) (by simp [List.length_drop]; omega) x hx

theorem chunks8_flatten (n : Nat) (b : Bytes) (h : b.length = 8 * n) : (chunks8 n b).flatten = b := by
  induction n generalizing b with
  | zero => simp [chunks8]; exact List.length_eq_zero_iff.mp (by omega)
  | succ n ih =>
    simp only [chunks8, List.flatten_cons]
    rw [ih (b.drop 8) (by simp [List.length_drop]; omega)]
    exact List.take_append_drop 8 b

theorem flatten_blocks_length (r : List Bytes) (h : ∀ x ∈ r, x.length = 8) : r.flatten.length = 8 * r.length := by
  induction r with
  | nil => rfl
  | cons x xs ih =>
    have := ih (fun y hy => h y (List.mem_cons_of_mem _ hy))
    simp only [List.flatten_cons, List.length_append, List.length_cons, h x (by simp), this]
    omega

theorem chunks8_of_flatten (r : List Bytes) (h : ∀ x ∈ r, x.length = 8) : chunks8 r.length r.flatten = r := by
  induction r with
  | nil => rfl
  | cons x xs ih =>
    have hx := h x (by simp)
    simp only [List.length_cons, chunks8, List.flatten_cons]
    rw [take_append_len _ _ hx, drop_append_len _ _ hx, ih (fun y hy => h y (List.mem_cons_of_mem _ hy))]

/-- `KeyUnwrap(block, KeyWrap(block, cek)) = cek` for every invertible block function and every key
whose length is a multiple of 8 (the empty key included). The wrapped key is 8 bytes longer. -/
theorem keyUnwrap_keyWrap {enc dec : Bytes → Bytes} (hp : BlockPerm enc dec) (cek : Bytes)
    (h8 : cek.length % 8 = 0) :
    ∃ w, keyWrap enc cek = ok w ∧ w.length = cek.length + 8 ∧ keyUnwrap dec w = ok cek := by
  have hlen : cek.length = 8 * (cek.length / 8) := by omega
  generalize hn : cek.length / 8 = n at hlen
  have hinv0 : KwInv n { a := defaultIV, r := chunks8 n cek } :=
    ⟨rfl, chunks8_length n cek, chunks8_blocks n cek hlen⟩
  by_cases hn0 : n = 0
  · -- empty key: no iteration runs
    subst hn0
    have hc : cek = [] := List.length_eq_zero_iff.mp (by omega)
    subst hc
    exact ⟨defaultIV, by simp [keyWrap, wrapUpTo, chunks8], rfl, by
      simp [keyUnwrap, defaultIV, unwrapDown, chunks8]⟩
  · have hpos : 0 < n := Nat.pos_of_ne_zero hn0
    have hinv := wrapUpTo_inv hp hpos hinv0 (6 * n)
    generalize hs : wrapUpTo enc n (6 * n) { a := defaultIV, r := chunks8 n cek } = s at hinv
    have hfl := flatten_blocks_length s.r hinv.blocks
    have hw : keyWrap enc cek = ok (s.a ++ s.r.flatten) := by
      simp [keyWrap, h8, hn, hs]
    have hwl : (s.a ++ s.r.flatten).length = 8 * n + 8 := by
      simp [hinv.a, hfl, hinv.r]; omega
    refine ⟨_, hw, by rw [hwl, hlen], ?_⟩
    unfold keyUnwrap
    rw [if_neg (by rw [hwl]; omega)]
    have hn' : (s.a ++ s.r.flatten).length / 8 - 1 = n := by rw [hwl]; omega
    simp only [hn']
    rw [take_append_len _ _ hinv.a, drop_append_len _ _ hinv.a]
    have hr : chunks8 n s.r.flatten = s.r := by
      have := chunks8_of_flatten s.r hinv.blocks
      rwa [hinv.r] at this
    rw [hr]
    have hback := unwrapDown_wrapUpTo hp hpos hinv0 (6 * n)
    rw [hs] at hback
    cases s with
    | mk a r =>
      simp only at hback ⊢
      rw [hback]
      simp [chunks8_flatten n cek hlen]

/-- The toy block function of the harness is an instance of the assumption. -/
theorem toy_perm (k : Nat) : BlockPerm (toyEnc k) (toyDec k) := by
  intro b hb
  match b, hb with
  | [b0, b1, b2, b3, b4, b5, b6, b7, b8, b9, b10, b11, b12, b13, b14, b15], _ =>
    refine ⟨by simp [toyEnc, List.zipIdx], ?_⟩
    simp [toyEnc, toyDec, List.zipIdx]

end Oryx.Jose
