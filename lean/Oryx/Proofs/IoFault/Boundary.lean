/-
  C08 — where a cut is a clean io.EOF and where it is io.ErrUnexpectedEOF: exactly between the basic header
  and the message header the reader polls the transport afresh (EOF); one byte later it is inside a
  fixed-size read (unexpected EOF). Also the handshake reads.
-/
import Oryx.Proofs.IoFault.Session
namespace Oryx.IoFault
open Oryx Oryx.Errors Oryx.Rtmp

theorem readBasicHeaderE_one (t cid : Nat) (h2 : 2 ≤ cid) (h64 : cid < 64) (X : Bytes) :
    readBasicHeaderE t (UInt8.ofNat cid :: X) = .ok ((0, cid), X) := by
  have h := readBasicHeader_one 0 cid (by omega) h2 h64 X
  simp only [Nat.zero_mul, Nat.zero_add] at h
  exact cut_readBasicHeaderE.ok_indep (erase_ok (by rw [erase_readBasicHeaderE, h])) t

/-- A stream that stops after a type-0 basic header and fewer than 11 bytes of the message header. -/
theorem header_boundary (st : Reader) (cid : Nat) (h2 : 2 ≤ cid) (h64 : cid < 64)
    (hnone : (st.chunks.getOrNew cid).msg = none) (X : Bytes) (hX : X.length < 11) (t : Nat) :
    ∃ e, readMessageE st t (UInt8.ofNat cid :: X) = .err e ∧
      e.cause = .root (if t = 0 then (if X.length = 0 then 0 else 1) else t) := by
  have hsz : headerSize 0 = .ok 11 := by decide
  have hrf : readFullE 11 t X = .err (.root (if t = 0 then (if X.length = 0 then 0 else 1) else t)) := by
    rw [readFullE_eq, if_neg (by decide), if_pos hX]
  obtain ⟨msg, hmh⟩ : ∃ msg, readMessageHeaderE (st.chunks.getOrNew cid) 0 t X =
      .err (.withStack (.withMessage msg (.root (if t = 0 then (if X.length = 0 then 0 else 1) else t)))) := by
    refine ⟨?msg, ?h⟩
    case h =>
      unfold readMessageHeaderE
      dsimp only
      rw [if_neg (by simp), if_neg (by simp [hnone])]
      rw [SP.bind_ok (a := 11) (r := X) (by simp [SP.lift, hsz])]
      rw [SP.bind_err (SP.wrap_err hrf)]
  refine ⟨.withMessage "read message header" (.withStack (.withMessage msg
    (.root (if t = 0 then (if X.length = 0 then 0 else 1) else t)))), ?_, ?_⟩
  · show readLoopE _ st t _ = _
    simp only [List.length_cons]
    unfold readLoopE
    rw [SP.bind_err]
    unfold readChunkE
    rw [SP.bind_ok (a := (0, cid)) (r := X) (SP.withMessage_ok.mpr (readBasicHeaderE_one t cid h2 h64 X))]
    dsimp only
    rw [SP.bind_err (SP.withMessage_err hmh)]
  · rfl

/-- The bytes of a written message start with its 1-byte basic header and at least 11 more bytes. -/
theorem writeMessage_head {c : Nat} {m : Msg} {W : Bytes} (hm : m.WF) (h : writeMessage c m = .ok W) :
    ∃ T, W = UInt8.ofNat m.hdr.cid :: T ∧ 11 ≤ T.length := by
  have hne : m.payload ≠ [] := by
    intro h0; have := hm.len_pos; rw [h0] at this; simp at this
  obtain ⟨_, W', _, _, hW⟩ := writeChunks_step c m _ true m.payload W hne h
  rw [if_pos rfl, c0Header_eq, Nat.mod_eq_of_lt hm.cid_hi] at hW
  refine ⟨_, by rw [hW]; simp only [List.cons_append]; rfl, ?_⟩
  simp only [List.length_append, tsField_length, be_length, le_length, List.length_cons, List.length_nil]
  omega

/-- **Where the cut falls matters**: a message cut right after its basic header is a clean io.EOF (the
reader polls for the message header); cut anywhere inside the 11-byte message header it is
io.ErrUnexpectedEOF; with a failing transport it is that transport's error in both places. -/
theorem first_header_cut (c : Nat) (m : Msg) (hm : m.WF) (st : Reader) (hcl : Clean st) (W : Bytes)
    (hw : writeMessage c m = .ok W) (k : Nat) (hk1 : 1 ≤ k) (hk : k ≤ 11) (t : Nat) :
    ∃ e, readMessageE st t (W.take k) = .err e ∧
      e.cause = .root (if t = 0 then (if k = 1 then 0 else 1) else t) := by
  obtain ⟨T, rfl, hT⟩ := writeMessage_head hm hw
  have hnone : (st.chunks.getOrNew m.hdr.cid).msg = none := by
    unfold Chunks.getOrNew
    cases hg : st.chunks.get m.hdr.cid with
    | none => rfl
    | some ch => exact (hcl _ _ hg).1
  obtain ⟨k', rfl⟩ : ∃ k', k = k' + 1 := ⟨k - 1, by omega⟩
  obtain ⟨e, he, hc⟩ := header_boundary st m.hdr.cid hm.cid_lo hm.cid_hi hnone (T.take k') (by simp; omega) t
  refine ⟨e, by simpa using he, ?_⟩
  rw [hc]
  have : (List.take k' T).length = k' := by simp; omega
  simp only [this, Nat.add_eq_right]

/-! ### handshake -/

theorem copyNE_append {n : Nat} (t : Nat) (a r : Bytes) (h : a.length = n) : copyNE n t (a ++ r) = .ok (a, r) := by
  rw [copyNE_eq, if_neg (by simp; omega), take_append_len a r h, drop_append_len a r h]

theorem cutN_hsReadE : CutN hsReadE := by
  unfold hsReadE hsReadC0E hsReadC1E hsReadC2E
  exact CutG.bind ((CutN.copyNE 1).wrap _) fun _ => CutG.bind ((CutN.copyNE 1536).wrap _) fun _ =>
    CutG.bind ((CutN.copyNE 1536).wrap _) fun _ => CutG.pure _

theorem hsReadE_ok (t : Nat) (c0 c1 c2 rest : Bytes) (h0 : c0.length = 1) (h1 : c1.length = 1536) (h2 : c2.length = 1536) :
    hsReadE t (c0 ++ (c1 ++ (c2 ++ rest))) = .ok ((c0, c1, c2), rest) := by
  unfold hsReadE hsReadC0E hsReadC1E hsReadC2E
  rw [SP.bind_ok (SP.wrap_ok.mpr (copyNE_append t c0 _ h0)),
    SP.bind_ok (SP.wrap_ok.mpr (copyNE_append t c1 _ h1)),
    SP.bind_ok (SP.wrap_ok.mpr (copyNE_append t c2 _ h2))]
  rfl

/-- **Handshake cut**: the three `io.CopyN` reads on the first `k` bytes of what the peer sent: all three
complete iff `k ≥ 3073`; otherwise the read in progress fails with exactly the transport's error
(io.EOF for a stream that ends — `io.CopyN` never reports io.ErrUnexpectedEOF). -/
theorem hs_cut (t : Nat) (c0 c1 c2 rest : Bytes) (h0 : c0.length = 1) (h1 : c1.length = 1536) (h2 : c2.length = 1536) (k : Nat) :
    (3073 ≤ k → hsReadE t ((c0 ++ (c1 ++ (c2 ++ rest))).take k) = .ok ((c0, c1, c2), rest.take (k - 3073))) ∧
    (k < 3073 → ∃ e, hsReadE t ((c0 ++ (c1 ++ (c2 ++ rest))).take k) = .err e ∧ e.cause = .root t) := by
  obtain ⟨n, hl, hcut⟩ := cutN_hsReadE 0 _ _ _ (hsReadE_ok 0 c0 c1 c2 rest h0 h1 h2)
  simp only [List.length_append, h0, h1, h2] at hl
  have hn : n = 3073 := by omega
  subst hn
  exact ⟨(hcut t k).1, (hcut t k).2⟩

end Oryx.IoFault
