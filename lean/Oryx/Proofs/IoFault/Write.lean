/-
  C08 — the chunk writer over bufio over a transport that accepts `K` bytes and then fails with root `t`:
  for EVERY flushing policy of bufio, the bytes delivered are the first `K` bytes of the session, the
  `WriteMessage` calls that returned nil are exactly those of the messages wholly delivered, and the call in
  progress returns an error whose root cause is the transport's.
-/
import Oryx.Proofs.IoFault.Session
namespace Oryx.IoFault
open Oryx Oryx.Errors Oryx.Rtmp

/-- bufio without error: everything accepted so far (`A`) is delivered or buffered; `K` = total budget. -/
structure Healthy (K : Nat) (A : Bytes) (w : BW) : Prop where
  bytes : w.out ++ w.buf = A
  budget : w.out.length + w.budget = K
  noerr : w.err = none

/-- bufio after the transport failed: it took exactly the first `K` bytes of what was accepted. -/
structure Failed (t K : Nat) (A : Bytes) (w : BW) : Prop where
  out : w.out = A.take K
  short : K < A.length
  err : w.err = some (.root t)

theorem Failed.mono {t K : Nat} {A : Bytes} {w : BW} (h : Failed t K A w) (X : Bytes) : Failed t K (A ++ X) w :=
  ⟨by rw [h.out, List.take_append_of_le_length (Nat.le_of_lt h.short)],
   by have := h.short; simp only [List.length_append]; omega, h.err⟩

theorem Healthy.push {K : Nat} {A : Bytes} {w : BW} (h : Healthy K A w) (t n : Nat) :
    Healthy K A (w.push t n) ∨ Failed t K A (w.push t n) := by
  have hA : A.length = w.out.length + w.buf.length := by rw [← h.bytes]; simp
  have hb := h.budget
  by_cases hle : min n w.buf.length ≤ w.budget
  · left
    simp only [BW.push, if_pos hle]
    refine ⟨?_, ?_, h.noerr⟩
    · show w.out ++ w.buf.take (min n w.buf.length) ++ w.buf.drop (min n w.buf.length) = A
      simp only [List.append_assoc, List.take_append_drop]; exact h.bytes
    · show (w.out ++ w.buf.take (min n w.buf.length)).length + (w.budget - min n w.buf.length) = K
      simp only [List.length_append, List.length_take]
      omega
  · right
    simp only [BW.push, if_neg hle]
    refine ⟨?_, by omega, rfl⟩
    show w.out ++ w.buf.take w.budget = A.take K
    have h1 : w.out.length ≤ K := by omega
    have h2 : K - w.out.length = w.budget := by omega
    rw [← h.bytes, List.take_append, List.take_of_length_le h1, h2]

theorem Healthy.push_all {K : Nat} {A : Bytes} {w : BW} {t : Nat} (h : Healthy K A (w.push t w.buf.length)) :
    (w.push t w.buf.length).buf = [] := by
  have := h.noerr
  unfold BW.push at this ⊢
  dsimp only at this ⊢
  split
  · simp
  · rename_i hgt; rw [if_neg hgt] at this; cases this

theorem Healthy.write {K : Nat} {A : Bytes} {w : BW} (h : Healthy K A w) (t : Nat) (pol : Pol) (p : Bytes) :
    (Healthy K (A ++ p) (w.write t pol p).1 ∧ (w.write t pol p).2 = none) ∨
    (Failed t K (A ++ p) (w.write t pol p).1 ∧ (w.write t pol p).2 = some (.root t)) := by
  have h' : Healthy K (A ++ p) { w with buf := w.buf ++ p, calls := w.calls + 1 } :=
    ⟨by simp only [← List.append_assoc, h.bytes], h.budget, h.noerr⟩
  have e : w.write t pol p =
      ((({ w with buf := w.buf ++ p, calls := w.calls + 1 } : BW).push t (pol w.calls w.buf.length p.length)),
       (({ w with buf := w.buf ++ p, calls := w.calls + 1 } : BW).push t (pol w.calls w.buf.length p.length)).err) := by
    have := h.noerr
    unfold BW.write
    split
    · rename_i e he; rw [this] at he; cases he
    · rfl
  rw [e]
  rcases h'.push t (pol w.calls w.buf.length p.length) with hh | hf
  · exact Or.inl ⟨hh, hh.noerr⟩
  · exact Or.inr ⟨hf, hf.err⟩

theorem Healthy.flush {K : Nat} {A : Bytes} {w : BW} (h : Healthy K A w) (t : Nat) :
    (Healthy K A (w.flush t).1 ∧ (w.flush t).1.buf = [] ∧ (w.flush t).2 = none) ∨
    (Failed t K A (w.flush t).1 ∧ (w.flush t).2 = some (.root t)) := by
  have e : w.flush t = (w.push t w.buf.length, (w.push t w.buf.length).err) := by
    have := h.noerr
    unfold BW.flush
    split
    · rename_i e he; rw [this] at he; cases he
    · rfl
  rw [e]
  rcases h.push t w.buf.length with hh | hf
  · exact Or.inl ⟨hh, hh.push_all, hh.noerr⟩
  · exact Or.inr ⟨hf, hf.err⟩

/-- The `Write` calls of `WriteMessage` carry exactly the bytes of `writeMessage`. -/
theorem segments_flatten (c : Nat) (m : Msg) : ∀ (fuel : Nat) (first : Bool) (p W : Bytes),
    writeChunks c m fuel first p = .ok W →
    ∃ segs, segments c m fuel first p = .ok segs ∧ (segs.map (·.2)).flatten = W := by
  intro fuel
  induction fuel with
  | zero =>
    intro first p W h
    cases p with
    | nil => simp only [writeChunks, Res.ok.injEq] at h; subst h; exact ⟨[], by simp [segments], rfl⟩
    | cons x xs => simp [writeChunks] at h
  | succ fuel ih =>
    intro first p W h
    cases p with
    | nil => simp only [writeChunks, Res.ok.injEq] at h; subst h; exact ⟨[], by simp [segments], rfl⟩
    | cons x xs =>
      simp only [writeChunks] at h
      obtain ⟨W', hW', hW⟩ := Res.bind_eq_ok.mp h
      simp only [Res.pure_eq, Res.ok.injEq] at hW
      obtain ⟨segs, hs, hf⟩ := ih false _ W' hW'
      refine ⟨(true, if first then c0Header m else c3Header m) ::
        (false, (x :: xs).take ((x :: xs).take c).length) :: segs,
        by simp only [segments, hs, Res.bind_ok, Res.pure_eq], ?_⟩
      simp only [List.map_cons, List.flatten_cons, hf]
      rw [← hW]; simp

theorem writeSegs_spec {K : Nat} (t : Nat) (pol : Pol) : ∀ (segs : List (Bool × Bytes)) (A : Bytes) (w : BW),
    Healthy K A w →
    (Healthy K (A ++ (segs.map (·.2)).flatten) (writeSegs t pol w segs).1 ∧ (writeSegs t pol w segs).2 = none) ∨
    (∃ e, (writeSegs t pol w segs).2 = some e ∧ e.cause = .root t ∧
      Failed t K (A ++ (segs.map (·.2)).flatten) (writeSegs t pol w segs).1) := by
  intro segs
  induction segs with
  | nil => intro A w h; left; simpa [writeSegs] using h
  | cons s segs ih =>
    intro A w h
    obtain ⟨isHdr, p⟩ := s
    simp only [List.map_cons, List.flatten_cons, ← List.append_assoc]
    unfold writeSegs
    rcases h.write t pol p with ⟨hh, he⟩ | ⟨hf, he⟩
    · cases hx : w.write t pol p with
      | mk w' e =>
        rw [hx] at hh he
        dsimp only at hh he
        subst he
        dsimp only
        exact ih (A ++ p) w' hh
    · cases hx : w.write t pol p with
      | mk w' e =>
        rw [hx] at hf he
        dsimp only at hf he
        subst he
        dsimp only
        exact Or.inr ⟨_, rfl, rfl, hf.mono _⟩

/-- One `WriteMessage` from a flushed, healthy writer. -/
theorem writeMessageW_spec {K : Nat} (t : Nat) (pol : Pol) (c : Nat) (m : Msg) (W1 : Bytes) (hw : writeMessage c m = .ok W1)
    (A : Bytes) (w : BW) (h : Healthy K A w) :
    ∃ w' e, writeMessageW t pol c w m = .ok (w', e) ∧
      ((Healthy K (A ++ W1) w' ∧ w'.buf = [] ∧ e = none) ∨
       (∃ e', e = some e' ∧ e'.cause = .root t ∧ Failed t K (A ++ W1) w')) := by
  obtain ⟨segs, hs, hf⟩ := segments_flatten c m _ _ _ _ hw
  unfold writeMessageW
  rw [hs]
  simp only [Res.bind_ok]
  rcases writeSegs_spec (K := K) t pol segs A w h with ⟨hh, he⟩ | ⟨e', he, hc, hfl⟩
  · rw [hf] at hh
    cases hx : writeSegs t pol w segs with
    | mk w1 e1 =>
      rw [hx] at hh he
      dsimp only at hh he
      subst he
      dsimp only
      rcases hh.flush t with ⟨hh2, hb, he2⟩ | ⟨hf2, he2⟩
      · cases hy : w1.flush t with
        | mk w2 e2 =>
          rw [hy] at hh2 hb he2
          dsimp only at hh2 hb he2
          subst he2
          exact ⟨w2, none, rfl, Or.inl ⟨hh2, hb, rfl⟩⟩
      · cases hy : w1.flush t with
        | mk w2 e2 =>
          rw [hy] at hf2 he2
          dsimp only at hf2 he2
          subst he2
          exact ⟨w2, _, rfl, Or.inr ⟨_, rfl, rfl, hf2⟩⟩
  · rw [hf] at hfl
    cases hx : writeSegs t pol w segs with
    | mk w1 e1 =>
      rw [hx] at hfl he
      dsimp only at hfl he
      subst he
      exact ⟨w1, some e', rfl, Or.inr ⟨e', rfl, hc, hfl⟩⟩

/-- **Write fault**, session level, from a flushed healthy writer that has delivered `A`. -/
theorem writeSessionW_spec {K : Nat} (t : Nat) (pol : Pol) (msgs : List Msg) (hall : ∀ m ∈ msgs, m.WF ∧ m.ChunkSizeOK) :
    ∀ (c : Nat) (W A : Bytes) (w : BW), 1 ≤ c → writeAll c msgs = .ok W → Healthy K A w → w.buf = [] →
    ∃ n e w', writeSessionW t pol c w msgs = .ok (n, e, w') ∧ w'.out = (A ++ W).take K ∧
      n = (wholeMsgs c (K - A.length) msgs).length ∧
      ((A ++ W).length ≤ K → e = none) ∧ (K < (A ++ W).length → ∃ e', e = some e' ∧ e'.cause = .root t) := by
  induction msgs with
  | nil =>
    intro c W A w _ hw h hb
    simp only [writeAll, Res.ok.injEq] at hw
    subst hw
    have hout : w.out = A := by have := h.bytes; rwa [hb, List.append_nil] at this
    have hl : A.length ≤ K := by have := h.budget; rw [hout] at this; omega
    refine ⟨0, none, w, rfl, ?_, rfl, fun _ => rfl, fun hk => ?_⟩
    · rw [List.append_nil, hout, List.take_of_length_le hl]
    · simp only [List.append_nil] at hk; omega
  | cons m ms ih =>
    intro c W A w hc hw h hb
    obtain ⟨hmwf, hmcs⟩ := hall m (by simp)
    have hms : ∀ x ∈ ms, x.WF ∧ x.ChunkSizeOK := fun x hx => hall x (by simp [hx])
    have hc' := outChunkAfter_pos c hc m hmcs
    obtain ⟨W1, hw1⟩ : ∃ W, writeMessage c m = .ok W := writeChunks_ok c hc m _ true _ (Nat.le_refl _)
    obtain ⟨W2, hw2⟩ := writeAll_ok ms hms _ hc'
    simp only [writeAll, hw1, hw2, Res.bind_ok, Res.pure_eq, Res.ok.injEq] at hw
    subst hw
    have hout : w.out = A := by have := h.bytes; rwa [hb, List.append_nil] at this
    have hl : A.length ≤ K := by have := h.budget; rw [hout] at this; omega
    obtain ⟨w1, e1, hwm, hcase⟩ := writeMessageW_spec (K := K) t pol c m W1 hw1 A w h
    rcases hcase with ⟨hh, hb1, rfl⟩ | ⟨e', rfl, hce, hf⟩
    · -- the whole message was delivered and acknowledged
      have hout1 : w1.out = A ++ W1 := by have := hh.bytes; rwa [hb1, List.append_nil] at this
      have hl1 : (A ++ W1).length ≤ K := by have := hh.budget; rw [hout1] at this; omega
      simp only [List.length_append] at hl1
      obtain ⟨n, e, w', hs, ho, hn, hnone, hsome⟩ := ih hms (outChunkAfter c m) W2 (A ++ W1) w1 hc' hw2 hh hb1
      refine ⟨n + 1, e, w', ?_, ?_, ?_, ?_, ?_⟩
      · simp only [writeSessionW, hwm, Res.bind_ok, hs, Res.pure_eq]
      · rw [ho, List.append_assoc]
      · simp only [wholeMsgs, hw1, if_pos (show W1.length ≤ K - A.length by omega), List.length_cons, hn,
          List.length_append, Nat.sub_sub]
      · intro hk; exact hnone (by rw [List.append_assoc]; exact hk)
      · intro hk; exact hsome (by rw [List.append_assoc]; exact hk)
    · -- the transport failed inside this message
      have hs := hf.short
      simp only [List.length_append] at hs
      refine ⟨0, some e', w1, ?_, ?_, ?_, ?_, fun _ => ⟨e', rfl, hce⟩⟩
      · simp only [writeSessionW, hwm, Res.bind_ok, Res.pure_eq]
      · rw [hf.out, ← List.append_assoc, List.take_append_of_le_length (Nat.le_of_lt hf.short)]
      · simp only [wholeMsgs, hw1, if_neg (show ¬ W1.length ≤ K - A.length by omega), List.length_nil]
      · intro hk; simp only [List.length_append] at hk; omega

end Oryx.IoFault
