/-
  C08 — the RTMP read path over a transport that ends or fails: cut property of every reader,
  fuel independence, erasure to the class-only model of C01.
-/
import Oryx.Proofs.IoFault.Cut
import Oryx.Model.IoFault
import Oryx.Proofs.Rtmp.Session
namespace Oryx.IoFault
open Oryx Oryx.Errors Oryx.Rtmp

theorem cut_readBasicHeaderE : Cut readBasicHeaderE := by
  unfold readBasicHeaderE
  refine CutG.bind ((Cut.readFullE 1).wrap _) fun b => ?_
  try dsimp only
  refine CutG.ite _ (CutG.pure _) ?_
  refine CutG.bind ((Cut.readFullE 1).wrap _) fun b2 => ?_
  try dsimp only
  refine CutG.ite _ ?_ (CutG.pure _)
  exact CutG.bind ((Cut.readFullE 1).wrap _) fun b3 => CutG.pure _

theorem cut_readMessageHeaderE (c : ChunkStream) (fmt : Nat) : Cut (readMessageHeaderE c fmt) := by
  unfold readMessageHeaderE
  try dsimp only
  refine CutG.ite _ (CutG.fail _) ?_
  refine CutG.ite _ (CutG.fail _) ?_
  refine CutG.bind (CutG.lift _) fun n => ?_
  refine CutG.bind ((Cut.readFullE n).wrap _) fun p => ?_
  refine CutG.bind (CutG.lift _) fun ⟨h, ext⟩ => ?_
  try dsimp only
  refine CutG.bind ?_ fun h => CutG.pure _
  cases ext
  · exact CutG.pure _
  · exact CutG.bind ((Cut.readFullE 4).wrap _) fun e => CutG.pure _

theorem cut_readMessagePayloadE (ic : Nat) (c : ChunkStream) : Cut (readMessagePayloadE ic c) := by
  unfold readMessagePayloadE
  cases c.msg with
  | none => exact CutG.panic
  | some m =>
    try dsimp only
    refine CutG.ite _ (CutG.pure _) ?_
    refine CutG.ite _ CutG.panic ?_
    refine CutG.bind ((Cut.readFullE _).wrap _) fun b => ?_
    exact CutG.ite _ (CutG.pure _) (CutG.pure _)

theorem cut_readChunkE (st : Reader) : Cut (readChunkE st) := by
  unfold readChunkE
  refine CutG.bind (cut_readBasicHeaderE.withMessage _) fun ⟨fmt, cid⟩ => ?_
  try dsimp only
  refine CutG.bind ((cut_readMessageHeaderE _ _).withMessage _) fun c => ?_
  refine CutG.bind ((cut_readMessagePayloadE _ _).withMessage _) fun ⟨c', m⟩ => ?_
  try dsimp only
  cases m with
  | none => exact CutG.pure _
  | some m => exact CutG.bind ((CutG.lift _).withMessage _) fun _ => CutG.pure _

theorem cut_readLoopE : ∀ (fuel : Nat) (st : Reader), Cut (readLoopE fuel st)
  | 0, _ => CutG.panic
  | fuel+1, st => by
    unfold readLoopE
    refine CutG.bind (cut_readChunkE st) fun ⟨st', m⟩ => ?_
    cases m with
    | none => exact cut_readLoopE fuel st'
    | some m => exact CutG.pure _


/-! ### progress and fuel -/

theorem readBasicHeaderE_nil (t : Nat) :
    readBasicHeaderE t [] = .err (.withStack (.withMessage "read basic header" (.root (if t = 0 then 0 else t)))) := by
  unfold readBasicHeaderE
  rw [SP.bind_err (e := .withStack (.withMessage "read basic header" (.root (if t = 0 then 0 else t))))]
  simp [SP.wrap, SP.mapErr_apply, readFullE_eq]

theorem readChunkE_nil (st : Reader) (t : Nat) :
    readChunkE st t [] = .err (.withMessage "read basic header"
      (.withStack (.withMessage "read basic header" (.root (if t = 0 then 0 else t))))) := by
  unfold readChunkE
  rw [SP.bind_err]
  simp [SP.withMessage, SP.mapErr_apply, readBasicHeaderE_nil]

theorem readChunkE_consumes {st : Reader} {t : Nat} {bs rest : Bytes} {v : Reader × Option Msg}
    (h : readChunkE st t bs = .ok (v, rest)) : rest.length < bs.length :=
  (cut_readChunkE st).consumes (fun t a r h => by rw [readChunkE_nil] at h; cases h) h

/-- `ReadMessage`'s loop never runs out of fuel: any two fuels above the stream length give the same result. -/
theorem readLoopE_fuel : ∀ (f f' : Nat) (st : Reader) (t : Nat) (bs : Bytes), bs.length < f → bs.length < f' →
    readLoopE f st t bs = readLoopE f' st t bs := by
  intro f
  induction f with
  | zero => intro f' st t bs h; omega
  | succ f ih =>
    intro f' st t bs h h'
    obtain ⟨g, rfl⟩ : ∃ g, f' = g + 1 := ⟨f' - 1, by omega⟩
    unfold readLoopE
    rw [SP.bind_apply, SP.bind_apply]
    cases hc : readChunkE st t bs with
    | ok x =>
      obtain ⟨⟨st', m⟩, rest⟩ := x
      have := readChunkE_consumes hc
      cases m with
      | none => exact ih g st' t rest (by omega) (by omega)
      | some m => rfl
    | err e => rfl
    | panic => rfl

theorem cut_readMessageE (st : Reader) : Cut (readMessageE st) := by
  intro t0 bs a rest h
  obtain ⟨n, hl, hk⟩ := cut_readLoopE (bs.length + 1) st t0 bs a rest h
  refine ⟨n, hl, fun t k => ?_⟩
  have : readMessageE st t (bs.take k) = readLoopE (bs.length + 1) st t (bs.take k) :=
    readLoopE_fuel _ _ _ _ _ (by simp) (by simp; omega)
  rw [this]; exact hk t k

theorem cut_expectMessageE (st : Reader) : Cut (expectMessageE st) := (cut_readMessageE st).withMessage _

theorem readMessageE_nil (st : Reader) (t : Nat) :
    readMessageE st t [] = .err (.withMessage "read basic header"
      (.withStack (.withMessage "read basic header" (.root (if t = 0 then 0 else t))))) := by
  show readLoopE 1 st t [] = _
  unfold readLoopE
  rw [SP.bind_err (readChunkE_nil st t)]

end Oryx.IoFault
