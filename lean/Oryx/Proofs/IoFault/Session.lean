/-
  C08 — RTMP sessions over a transport that ends or fails at any byte: the reader returns exactly the
  messages wholly contained in the bytes delivered, then an error whose root cause is the transport's.
  Built from C01's round trip (`Rtmp.write_read_one`), the erasure theorem and the cut lemma.
-/
import Oryx.Proofs.IoFault.Erase
namespace Oryx.IoFault
open Oryx Oryx.Errors Oryx.Rtmp

/-- The messages lying wholly inside the first `k` bytes of `writeAll c msgs`, in order (the writer's chunk
size follows its own Set Chunk Size announcements). -/
def wholeMsgs : Nat → Nat → List Msg → List Msg
  | _, _, [] => []
  | c, k, m :: ms =>
    match writeMessage c m with
    | .ok W1 => if W1.length ≤ k then m :: wholeMsgs (outChunkAfter c m) (k - W1.length) ms else []
    | _ => []

theorem wholeMsgs_prefix : ∀ (c k : Nat) (msgs : List Msg), wholeMsgs c k msgs <+: msgs
  | _, _, [] => by simp [wholeMsgs]
  | c, k, m :: ms => by
    unfold wholeMsgs
    split
    · split
      · exact (List.prefix_cons_inj m).mpr (wholeMsgs_prefix _ _ ms)
      · exact List.nil_prefix
    · exact List.nil_prefix

theorem wholeMsgs_eq_take (c k : Nat) (msgs : List Msg) :
    wholeMsgs c k msgs = msgs.take (wholeMsgs c k msgs).length :=
  List.prefix_iff_eq_take.mp (wholeMsgs_prefix c k msgs)

theorem writeAll_ok (msgs : List Msg) (hall : ∀ m ∈ msgs, m.WF ∧ m.ChunkSizeOK) (c : Nat) (hc : 1 ≤ c) :
    ∃ W, writeAll c msgs = .ok W := by
  obtain ⟨W, _, hw, _⟩ := session msgs hall c { inChunk := c, chunks := [] } [] hc rfl
    (by intro k ch hk; simp [Chunks.get] at hk)
  exact ⟨W, hw⟩

theorem writeMessage_nonempty {c : Nat} {m : Msg} {W : Bytes} (hm : m.WF) (h : writeMessage c m = .ok W) :
    1 ≤ W.length := by
  have := writeChunks_length_ge c m _ _ _ _ h
  have := hm.len_pos
  omega

theorem ite_root (t : Nat) : (if t = 0 then 0 else t) = t := by
  split <;> omega

/-- Everything was delivered: all messages are whole. -/
theorem wholeMsgs_all (msgs : List Msg) (hall : ∀ m ∈ msgs, m.WF ∧ m.ChunkSizeOK) :
    ∀ (c k : Nat) (W : Bytes), 1 ≤ c → writeAll c msgs = .ok W → W.length ≤ k → wholeMsgs c k msgs = msgs := by
  induction msgs with
  | nil => intros; rfl
  | cons m ms ih =>
    intro c k W hc hw hk
    obtain ⟨hmwf, hmcs⟩ := hall m (by simp)
    have hms : ∀ x ∈ ms, x.WF ∧ x.ChunkSizeOK := fun x hx => hall x (by simp [hx])
    obtain ⟨W1, hw1⟩ := writer_ok c hc m
    obtain ⟨W2, hw2⟩ := writeAll_ok ms hms _ (outChunkAfter_pos c hc m hmcs)
    simp only [writeAll, hw1, hw2, Res.bind_ok, Res.pure_eq, Res.ok.injEq] at hw
    subst hw
    simp only [List.length_append] at hk
    simp only [wholeMsgs, hw1, if_pos (show W1.length ≤ k by omega)]
    rw [ih hms _ _ W2 (outChunkAfter_pos c hc m hmcs) hw2 (by omega)]
where
  writer_ok (c : Nat) (hc : 1 ≤ c) (m : Msg) : ∃ W, writeMessage c m = .ok W :=
    writeChunks_ok c hc m _ true _ (Nat.le_refl _)

/-- **Session cut**, for every transport error `t` (`t = 0`: the stream ends; otherwise it fails), every
offset `k` and every sufficient fuel. -/
theorem session_cut (msgs : List Msg) (hall : ∀ m ∈ msgs, m.WF ∧ m.ChunkSizeOK) :
    ∀ (c : Nat) (st : Reader), 1 ≤ c → st.inChunk = c → Clean st →
    ∃ W, writeAll c msgs = .ok W ∧ ∀ (t k fuel : Nat), (W.take k).length < fuel →
      ∃ e, readSessionE fuel st t (W.take k) = ((wholeMsgs c k msgs).map received, .err e) ∧
        endFull t e.cause ∧
        (((∃ W', writeAll c (wholeMsgs c k msgs) = .ok W' ∧ W'.length = k) ∨ W.length ≤ k) → e.cause = .root t) := by
  induction msgs with
  | nil =>
    intro c st _ _ _
    refine ⟨[], rfl, fun t k fuel hf => ?_⟩
    obtain ⟨f, rfl⟩ : ∃ f, fuel = f + 1 := ⟨fuel - 1, by omega⟩
    refine ⟨.withMessage "read basic header" (.withStack (.withMessage "read basic header" (.root (if t = 0 then 0 else t)))),
      by simp [readSessionE, readMessageE_nil, wholeMsgs], ?_, fun _ => ?_⟩
    · simp only [Err.cause, ite_root]; exact Or.inl rfl
    · simp only [Err.cause, ite_root]
  | cons m ms ih =>
    intro c st hc hic hcl
    obtain ⟨hmwf, hmcs⟩ := hall m (by simp)
    have hms : ∀ x ∈ ms, x.WF ∧ x.ChunkSizeOK := fun x hx => hall x (by simp [hx])
    have hc' := outChunkAfter_pos c hc m hmcs
    obtain ⟨W2, hw2⟩ := writeAll_ok ms hms _ hc'
    obtain ⟨W1, hw1⟩ : ∃ W, writeMessage c m = .ok W := writeChunks_ok c hc m _ true _ (Nat.le_refl _)
    have hne := writeMessage_nonempty hmwf hw1
    refine ⟨W1 ++ W2, by simp only [writeAll, hw1, hw2, Res.bind_ok, Res.pure_eq], fun t k fuel hf => ?_⟩
    obtain ⟨f, rfl⟩ : ∃ f, fuel = f + 1 := ⟨fuel - 1, by omega⟩
    by_cases hk : W1.length ≤ k
    · -- the first message is wholly inside: it is read back (C01), the rest by induction
      have etake : (W1 ++ W2).take k = W1 ++ W2.take (k - W1.length) := by
        rw [List.take_append, List.take_of_length_le hk]
      obtain ⟨W1', st1, hw1', hr1, hcl1, hic1⟩ := write_read_one c hc m hmwf st hic hcl (W2.take (k - W1.length))
      have : W1' = W1 := by rw [hw1] at hw1'; exact (Res.ok.inj hw1').symm
      subst this
      have hrE := readMessageE_of_ok hr1 t
      obtain ⟨W2', hw2', hrest⟩ := ih hms (outChunkAfter c m) st1 hc' hic1 hcl1
      have : W2' = W2 := by rw [hw2] at hw2'; exact (Res.ok.inj hw2').symm
      subst this
      rw [etake] at hf ⊢
      simp only [List.length_append] at hf
      obtain ⟨e, hre, hce, hbe⟩ := hrest t (k - W1'.length) f (by omega)
      refine ⟨e, ?_, hce, fun hb => hbe ?_⟩
      · simp only [readSessionE, hrE, hre, wholeMsgs, hw1, if_pos hk, List.map_cons]
      · rcases hb with ⟨W', hW', hl⟩ | hl
        · left
          simp only [wholeMsgs, hw1, if_pos hk, writeAll] at hW'
          cases hx : writeAll (outChunkAfter c m) (wholeMsgs (outChunkAfter c m) (k - W1'.length) ms) with
          | ok W'' =>
            rw [hx] at hW'
            simp only [Res.bind_ok, Res.pure_eq, Res.ok.injEq] at hW'
            subst hW'
            simp only [List.length_append] at hl
            exact ⟨W'', rfl, by omega⟩
          | err e => rw [hx] at hW'; simp at hW'
          | panic => rw [hx] at hW'; simp at hW'
        · right
          simp only [List.length_append] at hl
          omega
    · -- the cut falls inside the first message: an error of the transport, never a message
      have hk' : k < W1.length := by omega
      have etake : (W1 ++ W2).take k = (W1 ++ []).take k := by
        rw [List.take_append, List.take_append, show k - W1.length = 0 by omega]
        simp
      obtain ⟨W1', st1, hw1', hr1, _, _⟩ := write_read_one c hc m hmwf st hic hcl []
      have : W1' = W1 := by rw [hw1] at hw1'; exact (Res.ok.inj hw1').symm
      subst this
      obtain ⟨n, hl, hcut⟩ := cut_readMessageE st 0 _ _ _ (readMessageE_of_ok hr1 0)
      simp only [List.length_append, List.length_nil, Nat.add_zero] at hl
      obtain ⟨e, he, hce⟩ := (hcut t k).2 (by omega)
      refine ⟨e, ?_, hce, fun hb => ?_⟩
      · rw [etake]
        simp only [readSessionE, he, wholeMsgs, hw1, if_neg hk, List.map_nil]
      · rcases hb with ⟨W', hW', hl'⟩ | hl'
        · simp only [wholeMsgs, hw1, if_neg hk, writeAll, Res.ok.injEq] at hW'
          subst hW'
          have hk0 : k = 0 := by simpa using hl'.symm
          subst hk0
          simp only [List.take_zero, readMessageE_nil, ResE.err.injEq] at he
          rw [← he]
          simp only [Err.cause, ite_root]
        · simp only [List.length_append] at hl'
          omega


/-- One message, cut strictly inside its bytes: an error of the transport — never a message, never a panic. -/
theorem message_cut (c : Nat) (hc : 1 ≤ c) (m : Msg) (hm : m.WF) (st : Reader) (hic : st.inChunk = c) (hcl : Clean st)
    (W1 : Bytes) (hw1 : writeMessage c m = .ok W1) (t k : Nat) (hk : k < W1.length) :
    ∃ e, readMessageE st t (W1.take k) = .err e ∧ endFull t e.cause := by
  obtain ⟨W1', st1, hw1', hr1, _, _⟩ := write_read_one c hc m hm st hic hcl []
  have : W1' = W1 := by rw [hw1] at hw1'; exact (Res.ok.inj hw1').symm
  subst this
  obtain ⟨n, hl, hcut⟩ := cut_readMessageE st 0 _ _ _ (readMessageE_of_ok hr1 0)
  simp only [List.length_nil, Nat.add_zero, List.append_nil] at hl hcut
  exact (hcut t k).2 (by omega)

/-- The same in the class-only model C01 is stated about: `readMessage` on a strict prefix of a written
message is `err eof` or `err ueof`. -/
theorem message_cut_class (c : Nat) (hc : 1 ≤ c) (m : Msg) (hm : m.WF) (st : Reader) (hic : st.inChunk = c) (hcl : Clean st)
    (W1 : Bytes) (hw1 : writeMessage c m = .ok W1) (k : Nat) (hk : k < W1.length) :
    readMessage st (W1.take k) = .err .eof ∨ readMessage st (W1.take k) = .err .ueof := by
  obtain ⟨e, he, hce⟩ := message_cut c hc m hm st hic hcl W1 hw1 0 k hk
  have := erase_readMessageE st (W1.take k)
  rw [he] at this
  rw [← this]
  rcases hce.cut with h | h
  · left; simp [ResE.erase, cls_of_cause h, ekOfRoot]
  · right; simp [ResE.erase, cls_of_cause h, ekOfRoot]

end Oryx.IoFault
