/-
  C08 — the FLV muxer over a transport that accepts `K` bytes and then fails: bytes delivered = the first `K`
  bytes of the file, tags acknowledged = the tags wholly delivered, the call in progress returns the
  transport's error itself (flv.go does not wrap).
-/
import Oryx.Proofs.IoFault.Write
import Oryx.Proofs.IoFault.Flv
namespace Oryx.IoFault
open Oryx Oryx.Errors Oryx.Flv

theorem directWrites_spec {K : Nat} (t : Nat) : ∀ (ps : List Bytes) (A : Bytes) (w : BW), Healthy K A w → w.buf = [] →
    (Healthy K (A ++ ps.flatten) (directWrites t w ps).1 ∧ (directWrites t w ps).1.buf = [] ∧ (directWrites t w ps).2 = none) ∨
    ((directWrites t w ps).2 = some (.root t) ∧ Failed t K (A ++ ps.flatten) (directWrites t w ps).1) := by
  intro ps
  induction ps with
  | nil => intro A w h hb; left; simpa [directWrites] using ⟨h, hb⟩
  | cons p ps ih =>
    intro A w h hb
    simp only [List.flatten_cons, ← List.append_assoc]
    unfold directWrites
    have hw : w.write t (fun _ _ l => l) p =
        (({ w with buf := w.buf ++ p, calls := w.calls + 1 } : BW).push t p.length,
         (({ w with buf := w.buf ++ p, calls := w.calls + 1 } : BW).push t p.length).err) := by
      have := h.noerr
      unfold BW.write
      split
      · rename_i e he; rw [this] at he; cases he
      · rfl
    have h' : Healthy K (A ++ p) { w with buf := w.buf ++ p, calls := w.calls + 1 } :=
      ⟨by simp only [← List.append_assoc, h.bytes], h.budget, h.noerr⟩
    have hlen : p.length = ({ w with buf := w.buf ++ p, calls := w.calls + 1 } : BW).buf.length := by
      simp [hb]
    rw [hw]
    rcases h'.push t p.length with hh | hf
    · have hb' := Healthy.push_all (t := t) (hlen ▸ hh)
      rw [← hlen] at hb'
      rw [hh.noerr]
      exact ih (A ++ p) _ hh hb'
    · rw [hf.err]
      exact Or.inr ⟨rfl, hf.mono _⟩

theorem flvTagWrites_flatten (tg : Tag) : (flvTagWrites tg).flatten = writeTag tg := by
  unfold flvTagWrites writeTag
  cases hb : tg.body with
  | nil => simp
  | cons x xs => simp

theorem flvWriteTagsW_spec {K : Nat} (t : Nat) : ∀ (tags : List Tag) (A : Bytes) (w : BW), Healthy K A w → w.buf = [] →
    (flvWriteTagsW t w tags).2.2.out = (A ++ writeTags tags).take K ∧
    (flvWriteTagsW t w tags).1 = (wholeTags (K - A.length) tags).length ∧
    ((A ++ writeTags tags).length ≤ K → (flvWriteTagsW t w tags).2.1 = none) ∧
    (K < (A ++ writeTags tags).length → (flvWriteTagsW t w tags).2.1 = some (.root t)) := by
  intro tags
  induction tags with
  | nil =>
    intro A w h hb
    have hout : w.out = A := by have := h.bytes; rwa [hb, List.append_nil] at this
    have hl : A.length ≤ K := by have := h.budget; rw [hout] at this; omega
    simp only [flvWriteTagsW, writeTags, List.append_nil, wholeTags, List.length_nil, true_and]
    exact ⟨by rw [hout, List.take_of_length_le hl], fun _ => trivial, fun hk => by omega⟩
  | cons tg tgs ih =>
    intro A w h hb
    have hout : w.out = A := by have := h.bytes; rwa [hb, List.append_nil] at this
    have hl : A.length ≤ K := by have := h.budget; rw [hout] at this; omega
    unfold flvWriteTagsW
    simp only [writeTags, ← List.append_assoc]
    rcases directWrites_spec (K := K) t (flvTagWrites tg) A w h hb with ⟨hh, hb1, he⟩ | ⟨he, hf⟩
    · rw [flvTagWrites_flatten] at hh
      cases hx : directWrites t w (flvTagWrites tg) with
      | mk w1 e1 =>
        rw [hx] at hh hb1 he
        dsimp only at hh hb1 he
        subst he
        dsimp only
        have hout1 : w1.out = A ++ writeTag tg := by have := hh.bytes; rwa [hb1, List.append_nil] at this
        have hl1 : (A ++ writeTag tg).length ≤ K := by have := hh.budget; rw [hout1] at this; omega
        simp only [List.length_append, writeTag_length] at hl1
        obtain ⟨h1, h2, h3, h4⟩ := ih (A ++ writeTag tg) w1 hh hb1
        refine ⟨h1, ?_, h3, h4⟩
        simp only [wholeTags, if_pos (show 15 + tg.body.length ≤ K - A.length by omega), List.length_cons, h2,
          List.length_append, writeTag_length, Nat.sub_sub]
    · rw [flvTagWrites_flatten] at hf
      cases hx : directWrites t w (flvTagWrites tg) with
      | mk w1 e1 =>
        rw [hx] at hf he
        dsimp only at hf he
        subst he
        dsimp only
        have hs := hf.short
        simp only [List.length_append, writeTag_length] at hs
        refine ⟨?_, ?_, ?_, fun _ => rfl⟩
        · rw [hf.out, List.take_append_of_le_length (Nat.le_of_lt hf.short)]
        · simp only [wholeTags, if_neg (show ¬ 15 + tg.body.length ≤ K - A.length by omega), List.length_nil]
        · intro hk; simp only [List.length_append, writeTag_length] at hk; omega

/-- **FLV write fault**: `WriteHeader` then `WriteTag`s over a transport that accepts `K` bytes. -/
theorem flvMuxW_spec (t K : Nat) (hv ha : Bool) (tags : List Tag) :
    (flvMuxW t { budget := K } hv ha tags).2.2.out = (mux hv ha tags).take K ∧
    (flvMuxW t { budget := K } hv ha tags).1 =
      (if K < 13 then none else some (wholeTags (K - 13) tags).length) ∧
    ((mux hv ha tags).length ≤ K → (flvMuxW t { budget := K } hv ha tags).2.1 = none) ∧
    (K < (mux hv ha tags).length → (flvMuxW t { budget := K } hv ha tags).2.1 = some (.root t)) := by
  have h0 : Healthy K [] ({ budget := K } : BW) := ⟨rfl, by simp, rfl⟩
  unfold flvMuxW mux
  rcases directWrites_spec (K := K) t [writeHeader hv ha] [] _ h0 rfl with ⟨hh, hb1, he⟩ | ⟨he, hf⟩
  · simp only [List.flatten_cons, List.flatten_nil, List.append_nil, List.nil_append] at hh
    cases hx : directWrites t ({ budget := K } : BW) [writeHeader hv ha] with
    | mk w1 e1 =>
      rw [hx] at hh hb1 he
      dsimp only at hh hb1 he
      subst he
      dsimp only
      have hout1 : w1.out = writeHeader hv ha := by have := hh.bytes; rwa [hb1, List.append_nil] at this
      have hl1 : (writeHeader hv ha).length ≤ K := by have := hh.budget; rw [hout1] at this; omega
      simp only [writeHeader_length] at hl1
      obtain ⟨h1, h2, h3, h4⟩ := flvWriteTagsW_spec (K := K) t tags (writeHeader hv ha) w1 hh hb1
      refine ⟨h1, ?_, h3, h4⟩
      simp only [if_neg (show ¬ K < 13 by omega), h2, writeHeader_length]
  · simp only [List.flatten_cons, List.flatten_nil, List.append_nil, List.nil_append] at hf
    cases hx : directWrites t ({ budget := K } : BW) [writeHeader hv ha] with
    | mk w1 e1 =>
      rw [hx] at hf he
      dsimp only at hf he
      subst he
      dsimp only
      have hs := hf.short
      simp only [writeHeader_length] at hs
      refine ⟨?_, by simp only [if_pos hs], ?_, fun _ => rfl⟩
      · rw [hf.out, List.take_append_of_le_length (Nat.le_of_lt hf.short)]
      · intro hk; simp only [List.length_append, writeHeader_length] at hk; omega


/-! ### handshake writes: three direct transport writes, each `Wrap`ped -/

theorem hsWritesW_spec {K : Nat} (t : Nat) : ∀ (parts : List (String × Bytes)) (A : Bytes) (w : BW), Healthy K A w → w.buf = [] →
    (hsWritesW t w parts).2.2.out = (A ++ (parts.map (·.2)).flatten).take K ∧
    ((A ++ (parts.map (·.2)).flatten).length ≤ K → (hsWritesW t w parts).2.1 = none ∧ (hsWritesW t w parts).1 = parts.length) ∧
    (K < (A ++ (parts.map (·.2)).flatten).length → ∃ e, (hsWritesW t w parts).2.1 = some e ∧ e.cause = .root t) := by
  intro parts
  induction parts with
  | nil =>
    intro A w h hb
    have hout : w.out = A := by have := h.bytes; rwa [hb, List.append_nil] at this
    have hl : A.length ≤ K := by have := h.budget; rw [hout] at this; omega
    simp only [hsWritesW, List.map_nil, List.flatten_nil, List.append_nil, List.length_nil, and_self, implies_true, true_and]
    exact ⟨by rw [hout, List.take_of_length_le hl], fun hk => by omega⟩
  | cons pt parts ih =>
    intro A w h hb
    obtain ⟨msg, p⟩ := pt
    unfold hsWritesW
    simp only [List.map_cons, List.flatten_cons, ← List.append_assoc, List.length_cons]
    rcases directWrites_spec (K := K) t [p] A w h hb with ⟨hh, hb1, he⟩ | ⟨he, hf⟩
    · simp only [List.flatten_cons, List.flatten_nil, List.append_nil] at hh
      cases hx : directWrites t w [p] with
      | mk w1 e1 =>
        rw [hx] at hh hb1 he
        dsimp only at hh hb1 he
        subst he
        dsimp only
        obtain ⟨h1, h2, h3⟩ := ih (A ++ p) w1 hh hb1
        exact ⟨h1, fun hk => ⟨(h2 hk).1, by rw [(h2 hk).2]⟩, h3⟩
    · simp only [List.flatten_cons, List.flatten_nil, List.append_nil] at hf
      cases hx : directWrites t w [p] with
      | mk w1 e1 =>
        rw [hx] at hf he
        dsimp only at hf he
        subst he
        dsimp only
        have hs := hf.short
        refine ⟨?_, fun hk => ?_, fun _ => ⟨_, rfl, rfl⟩⟩
        · rw [hf.out, List.take_append_of_le_length (Nat.le_of_lt hf.short)]
        · simp only [List.length_append] at hk hs; omega

end Oryx.IoFault
