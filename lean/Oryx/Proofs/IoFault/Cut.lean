/-
  C08 — the generic cut lemma for stream parsers over a transport that ends or fails.

  `CutG E p`: whenever `p` succeeds on a stream (for some transport error `t0`) having consumed `n` bytes, then
  on EVERY prefix `take k` of that stream and for EVERY transport error `t`:
    * `k ≥ n`  →  the same value, remainder `take (k - n) rest`     (prefix-monotone; success never depends on `t`)
    * `k < n`  →  an error whose root cause satisfies `E t`:
         `Cut  = CutG endFull` (io.ReadFull rule): `root t`; for a stream that ENDS (`t = 0`, io.EOF) possibly
                                                   io.ErrUnexpectedEOF (`root 1`) instead;
         `CutN = CutG endCopy` (io.CopyN rule):    exactly `root t`
       — never a value, never another error.
  It holds for the primitives (`readFullE`, `copyNE`) and is closed under `bind`, `pure`, branching, lifting of
  stream-independent computations and under every error-mapping that PRESERVES THE CAUSE (`Wrap`, `WithMessage`):
  a wrap site that swallows or replaces the transport's error is exactly what makes it unprovable.
-/
import Oryx.Proofs.Errors
namespace Oryx.Errors
open Oryx

/-! ### the parser monad -/

theorem SP.bind_apply (p : SP α) (f : α → SP β) (t : Nat) (bs : Bytes) :
    (p >>= f) t bs = match p t bs with
      | .ok (a, r) => f a t r
      | .err e => .err e
      | .panic => .panic := rfl

theorem SP.pure_apply (a : α) (t : Nat) (bs : Bytes) : (pure a : SP α) t bs = .ok (a, bs) := rfl

theorem SP.bind_ok {p : SP α} {f : α → SP β} {t : Nat} {bs r : Bytes} {a : α} (h : p t bs = .ok (a, r)) :
    (p >>= f) t bs = f a t r := by
  rw [SP.bind_apply, h]

theorem SP.bind_err {p : SP α} {f : α → SP β} {t : Nat} {bs : Bytes} {e : Err} (h : p t bs = .err e) :
    (p >>= f) t bs = .err e := by
  rw [SP.bind_apply, h]

theorem SP.bind_eq_ok {p : SP α} {f : α → SP β} {t : Nat} {bs : Bytes} {v : β × Bytes}
    (h : (p >>= f) t bs = .ok v) : ∃ a r, p t bs = .ok (a, r) ∧ f a t r = .ok v := by
  rw [SP.bind_apply] at h
  cases hp : p t bs with
  | ok x => obtain ⟨a, r⟩ := x; rw [hp] at h; exact ⟨a, r, rfl, h⟩
  | err e => rw [hp] at h; cases h
  | panic => rw [hp] at h; cases h

theorem SP.mapErr_apply (f : Err → Err) (p : SP α) (t : Nat) (bs : Bytes) :
    (p.mapErr f) t bs = match p t bs with
      | .err e => .err (f e)
      | r => r := rfl

theorem SP.mapErr_ok {f : Err → Err} {p : SP α} {t : Nat} {bs : Bytes} {v : α × Bytes} :
    (p.mapErr f) t bs = .ok v ↔ p t bs = .ok v := by
  rw [SP.mapErr_apply]
  cases p t bs <;> simp

theorem SP.wrap_ok {msg : String} {p : SP α} {t : Nat} {bs : Bytes} {v : α × Bytes} :
    (p.wrap msg) t bs = .ok v ↔ p t bs = .ok v := SP.mapErr_ok

theorem SP.withMessage_ok {msg : String} {p : SP α} {t : Nat} {bs : Bytes} {v : α × Bytes} :
    (p.withMessage msg) t bs = .ok v ↔ p t bs = .ok v := SP.mapErr_ok

theorem SP.wrap_err {msg : String} {p : SP α} {t : Nat} {bs : Bytes} {e : Err} (h : p t bs = .err e) :
    (p.wrap msg) t bs = .err (.withStack (.withMessage msg e)) := by
  simp only [SP.wrap, SP.mapErr_apply, h]

theorem SP.withMessage_err {msg : String} {p : SP α} {t : Nat} {bs : Bytes} {e : Err} (h : p t bs = .err e) :
    (p.withMessage msg) t bs = .err (.withMessage msg e) := by
  simp only [SP.withMessage, SP.mapErr_apply, h]

/-! ### primitives: specification-level reading -/

theorem readFullE_eq (n t : Nat) (bs : Bytes) :
    readFullE n t bs =
      if n = 0 then .ok ([], bs)
      else if bs.length < n then .err (.root (if t = 0 then (if bs.length = 0 then 0 else 1) else t))
      else .ok (bs.take n, bs.drop n) := by
  unfold readFullE
  split
  · rfl
  · simp only [List.length_take]
    have he : bs.isEmpty = true ↔ bs.length = 0 := by cases bs <;> simp
    by_cases h : bs.length < n
    · have : min n bs.length < n := by omega
      simp only [this, h, if_true]
      by_cases h0 : bs.length = 0
      · simp [h0, he.mpr h0]
      · have : bs.isEmpty = false := by
          cases hb : bs.isEmpty
          · rfl
          · exact absurd (he.mp hb) h0
        simp [h0, this]
    · have : ¬ min n bs.length < n := by omega
      simp [this, h]

theorem copyNE_eq (n t : Nat) (bs : Bytes) :
    copyNE n t bs = if bs.length < n then .err (.root t) else .ok (bs.take n, bs.drop n) := by
  unfold copyNE
  simp only [List.length_take]
  by_cases h : bs.length < n
  · have : min n bs.length < n := by omega
    simp [h, this]
  · have : ¬ min n bs.length < n := by omega
    simp [h, this]

/-! ### the cut predicate -/

/-- What the root cause of a starved read may be, given the transport's error `t`. -/
abbrev EndRel := Nat → Err → Prop

/-- `io.ReadFull` rule: the transport's own error (`root t`), or io.ErrUnexpectedEOF when the transport merely
ended (`t = 0`) in the middle of a fixed-size read. -/
def endFull : EndRel := fun t c => c = .root t ∨ (t = 0 ∧ c = .root 1)

/-- `io.CopyN` rule: exactly the transport's error (io.EOF for a stream that ends). -/
def endCopy : EndRel := fun t c => c = .root t

def EndErr (E : EndRel) (t : Nat) (r : ResE α) : Prop := ∃ e, r = .err e ∧ E t e.cause

def CutG (E : EndRel) (p : SP α) : Prop :=
  ∀ t0 bs a rest, p t0 bs = .ok (a, rest) →
    ∃ n, bs.length = n + rest.length ∧ ∀ t k,
      (n ≤ k → p t (bs.take k) = .ok (a, rest.take (k - n))) ∧ (k < n → EndErr E t (p t (bs.take k)))

/-- Readers built on `io.ReadFull` / `binary.Read` (and `io.CopyN`). -/
abbrev Cut (p : SP α) : Prop := CutG endFull p

/-- Readers built on `io.CopyN` only. -/
abbrev CutN (p : SP α) : Prop := CutG endCopy p

theorem CutG.mono {E E' : EndRel} (h : ∀ t c, E t c → E' t c) {p : SP α} (hp : CutG E p) : CutG E' p := by
  intro t0 bs a rest hok
  obtain ⟨n, hl, hk⟩ := hp t0 bs a rest hok
  refine ⟨n, hl, fun t k => ⟨(hk t k).1, fun hlt => ?_⟩⟩
  obtain ⟨e, he, hc⟩ := (hk t k).2 hlt
  exact ⟨e, he, h _ _ hc⟩

theorem CutN.cut {p : SP α} (hp : CutN p) : Cut p := hp.mono fun _ _ h => Or.inl h

/-- With a failing transport (`t ≠ 0`) the root cause is exactly the transport's error. -/
theorem endFull.inject {t : Nat} {c : Err} (ht : t ≠ 0) (h : endFull t c) : c = .root t := by
  rcases h with h | ⟨h0, _⟩
  · exact h
  · exact absurd h0 ht

/-- With a transport that ends, it is io.EOF or io.ErrUnexpectedEOF. -/
theorem endFull.cut {c : Err} (h : endFull 0 c) : c = .root 0 ∨ c = .root 1 := by
  rcases h with h | ⟨_, h⟩
  · exact Or.inl h
  · exact Or.inr h

variable {E : EndRel}

/-- Success does not depend on what the transport would report after the bytes. -/
theorem CutG.ok_indep {p : SP α} (hp : CutG E p) {t0 : Nat} {bs : Bytes} {v : α × Bytes} (h : p t0 bs = .ok v) (t : Nat) :
    p t bs = .ok v := by
  obtain ⟨a, rest⟩ := v
  obtain ⟨n, hl, hk⟩ := hp t0 bs a rest h
  have := (hk t bs.length).1 (by omega)
  rw [List.take_length] at this
  rw [this, List.take_of_length_le (by omega)]

/-- A parser with the cut property that does not succeed on the empty stream consumes at least one byte. -/
theorem CutG.consumes {p : SP α} (hp : CutG E p) (hnil : ∀ t a r, p t [] ≠ .ok (a, r))
    {t0 : Nat} {bs : Bytes} {a : α} {rest : Bytes} (h : p t0 bs = .ok (a, rest)) : rest.length < bs.length := by
  obtain ⟨n, hl, hk⟩ := hp t0 bs a rest h
  by_cases hn : n = 0
  · have := (hk t0 0).1 (by omega)
    simp only [List.take_zero] at this
    exact absurd this (hnil _ _ _)
  · omega

theorem CutG.pure (a : α) : CutG E (pure a : SP α) := by
  intro t0 bs a' rest h
  rw [SP.pure_apply] at h
  cases h
  refine ⟨0, by simp, fun t k => ⟨fun _ => ?_, fun hk => absurd hk (by omega)⟩⟩
  rw [SP.pure_apply]; simp

theorem CutG.fail (e : Err) : CutG E (SP.fail e : SP α) := by
  intro t0 bs a rest h; cases h

theorem CutG.panic : CutG E (SP.panic : SP α) := by
  intro t0 bs a rest h; cases h

theorem CutG.lift (r : Res α) : CutG E (SP.lift r) := by
  intro t0 bs a rest h
  cases r with
  | ok x =>
    simp only [SP.lift] at h
    cases h
    refine ⟨0, by simp, fun t k => ⟨fun _ => by simp [SP.lift], fun hk => absurd hk (by omega)⟩⟩
  | err k => simp [SP.lift] at h
  | panic => simp [SP.lift] at h

theorem CutG.bind {p : SP α} {f : α → SP β} (hp : CutG E p) (hf : ∀ a, CutG E (f a)) : CutG E (p >>= f) := by
  intro t0 bs b rest2 h
  obtain ⟨a, r1, h1, h2⟩ := SP.bind_eq_ok h
  obtain ⟨n1, hl1, hk1⟩ := hp t0 bs a r1 h1
  obtain ⟨n2, hl2, hk2⟩ := hf a t0 r1 b rest2 h2
  refine ⟨n1 + n2, by omega, fun t k => ⟨fun hk => ?_, fun hk => ?_⟩⟩
  · rw [SP.bind_ok ((hk1 t k).1 (by omega)), (hk2 t (k - n1)).1 (by omega), Nat.sub_sub]
  · by_cases hlt : k < n1
    · obtain ⟨e, he, hc⟩ := (hk1 t k).2 hlt
      exact ⟨e, SP.bind_err he, hc⟩
    · rw [SP.bind_ok ((hk1 t k).1 (by omega))]
      exact (hk2 t (k - n1)).2 (by omega)

/-- `if err != nil { return f(err) }` keeps the cut property as long as `f` keeps the cause. -/
theorem CutG.mapErr {p : SP α} {f : Err → Err} (hp : CutG E p) (hf : ∀ e, (f e).cause = e.cause) :
    CutG E (p.mapErr f) := by
  intro t0 bs a rest h
  obtain ⟨n, hl, hk⟩ := hp t0 bs a rest (SP.mapErr_ok.mp h)
  refine ⟨n, hl, fun t k => ⟨fun hle => SP.mapErr_ok.mpr ((hk t k).1 hle), fun hlt => ?_⟩⟩
  obtain ⟨e, he, hc⟩ := (hk t k).2 hlt
  exact ⟨f e, by rw [SP.mapErr_apply, he], by rw [hf]; exact hc⟩

theorem CutG.wrap {p : SP α} (msg : String) (hp : CutG E p) : CutG E (p.wrap msg) :=
  hp.mapErr fun _ => rfl

theorem CutG.withMessage {p : SP α} (msg : String) (hp : CutG E p) : CutG E (p.withMessage msg) :=
  hp.mapErr fun _ => rfl

theorem CutG.ite {p q : SP α} (c : Prop) [Decidable c] (hp : CutG E p) (hq : CutG E q) :
    CutG E (if c then p else q) := by
  split <;> assumption

theorem Cut.readFullE (n : Nat) : Cut (readFullE n) := by
  intro t0 bs a rest h
  rw [readFullE_eq] at h
  by_cases hn : n = 0
  · simp only [hn, if_true, ResE.ok.injEq, Prod.mk.injEq] at h
    obtain ⟨rfl, rfl⟩ := h
    refine ⟨0, by simp, fun t k => ⟨fun _ => by simp [readFullE_eq, hn], fun hk => absurd hk (by omega)⟩⟩
  · simp only [hn, if_false] at h
    by_cases hl : bs.length < n
    · simp [hl] at h
    · simp only [hl, if_false, ResE.ok.injEq, Prod.mk.injEq] at h
      obtain ⟨rfl, rfl⟩ := h
      refine ⟨n, by simp; omega, fun t k => ⟨fun hk => ?_, fun hk => ?_⟩⟩
      · have : ¬ (List.take k bs).length < n := by simp; omega
        rw [readFullE_eq, if_neg hn, if_neg this, List.take_take, Nat.min_eq_left hk, List.drop_take]
      · have : (List.take k bs).length < n := by simp; omega
        rw [readFullE_eq, if_neg hn, if_pos this]
        refine ⟨_, rfl, ?_⟩
        by_cases ht : t = 0
        · subst ht
          by_cases h0 : (List.take k bs).length = 0
          · simp only [h0, if_true]; exact Or.inl rfl
          · simp only [h0, if_true, if_false]; exact Or.inr ⟨rfl, rfl⟩
        · simp only [ht, if_false]; exact Or.inl rfl

theorem CutN.copyNE (n : Nat) : CutN (copyNE n) := by
  intro t0 bs a rest h
  rw [copyNE_eq] at h
  by_cases hl : bs.length < n
  · simp [hl] at h
  · simp only [hl, if_false, ResE.ok.injEq, Prod.mk.injEq] at h
    obtain ⟨rfl, rfl⟩ := h
    refine ⟨n, by simp; omega, fun t k => ⟨fun hk => ?_, fun hk => ?_⟩⟩
    · have : ¬ (List.take k bs).length < n := by simp; omega
      rw [copyNE_eq, if_neg this, List.take_take, Nat.min_eq_left hk, List.drop_take]
    · have : (List.take k bs).length < n := by simp; omega
      rw [copyNE_eq, if_pos this]
      exact ⟨_, rfl, rfl⟩

end Oryx.Errors
