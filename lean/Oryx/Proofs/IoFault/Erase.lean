/-
  C08 — forgetting the layers: over a transport that ENDS (`t = 0`, io.EOF) the error-carrying readers are
  the class-only models that C01 (RTMP) and C09 (FLV) are stated about.
-/
import Oryx.Proofs.IoFault.Rtmp
import Oryx.Proofs.Flv
namespace Oryx.IoFault
open Oryx Oryx.Errors Oryx.Rtmp

theorem erase_bind (p : SP α) (f : α → SP β) (t : Nat) (bs : Bytes) :
    ((p >>= f) t bs).erase = ((p t bs).erase >>= fun x => (f x.1 t x.2).erase) := by
  rw [SP.bind_apply]
  cases p t bs with
  | ok x => obtain ⟨a, r⟩ := x; rfl
  | err e => rfl
  | panic => rfl

theorem erase_mapErr {f : Err → Err} (hf : ∀ e, (f e).cls = e.cls) (p : SP α) (t : Nat) (bs : Bytes) :
    ((p.mapErr f) t bs).erase = (p t bs).erase := by
  rw [SP.mapErr_apply]
  cases p t bs with
  | ok x => rfl
  | err e => simp [ResE.erase, hf]
  | panic => rfl

theorem erase_wrap (msg : String) (p : SP α) (t : Nat) (bs : Bytes) : ((p.wrap msg) t bs).erase = (p t bs).erase :=
  erase_mapErr (f := fun e => .withStack (.withMessage msg e)) (fun _ => rfl) p t bs

theorem erase_withMessage (msg : String) (p : SP α) (t : Nat) (bs : Bytes) :
    ((p.withMessage msg) t bs).erase = (p t bs).erase :=
  erase_mapErr (f := .withMessage msg) (fun _ => rfl) p t bs

theorem erase_pure (a : α) (t : Nat) (bs : Bytes) : ((pure a : SP α) t bs).erase = .ok (a, bs) := rfl

theorem erase_lift (r : Res α) (t : Nat) (bs : Bytes) : ((SP.lift r) t bs).erase = (r >>= fun a => .ok (a, bs)) := by
  cases r with
  | ok a => rfl
  | err k => cases k <;> rfl
  | panic => rfl

theorem erase_fail3 (t : Nat) (bs : Bytes) : ((SP.fail (.root 3) : SP α) t bs).erase = .err .generic := rfl

theorem erase_panic (t : Nat) (bs : Bytes) : ((SP.panic : SP α) t bs).erase = .panic := rfl

theorem erase_readFullE (n : Nat) (bs : Bytes) : (readFullE n 0 bs).erase = readFull n bs := by
  rw [readFullE_eq, readFull_eq]
  by_cases hn : n = 0
  · simp [hn, ResE.erase]
  · by_cases h0 : bs.length = 0
    · have : bs.length < n := by omega
      rw [if_neg hn, if_pos this, if_neg hn, if_pos h0]
      simp [h0, ResE.erase, Err.cls, Err.cause, ekOfRoot]
    · by_cases hl : bs.length < n
      · rw [if_neg hn, if_pos hl, if_neg hn, if_neg h0, if_pos hl]
        simp [h0, ResE.erase, Err.cls, Err.cause, ekOfRoot]
      · rw [if_neg hn, if_neg hl, if_neg hn, if_neg h0, if_neg hl]
        rfl

theorem erase_copyNE (n : Nat) (bs : Bytes) : (copyNE n 0 bs).erase = copyN n bs := by
  rw [copyNE_eq, copyN_eq]
  by_cases hl : bs.length < n
  · simp [hl, ResE.erase, Err.cls, Err.cause, ekOfRoot]
  · simp [hl, ResE.erase]

theorem erase_ok {r : ResE α} {a : α} (h : r.erase = .ok a) : r = .ok a := by
  cases r with
  | ok x => simp [ResE.erase] at h; rw [h]
  | err e => simp [ResE.erase] at h
  | panic => simp [ResE.erase] at h

theorem erase_err {r : ResE α} {k : EK} (h : r.erase = .err k) : ∃ e, r = .err e ∧ e.cls = k := by
  cases r with
  | ok x => simp [ResE.erase] at h
  | err e => simp [ResE.erase] at h; exact ⟨e, rfl, h⟩
  | panic => simp [ResE.erase] at h

/-! ### RTMP -/

theorem erase_readBasicHeaderE (bs : Bytes) : (readBasicHeaderE 0 bs).erase = readBasicHeader bs := by
  unfold readBasicHeaderE readBasicHeader
  rw [erase_bind, erase_wrap, erase_readFullE]
  cases readFull 1 bs with
  | err k => rfl
  | panic => rfl
  | ok x =>
    obtain ⟨b, r⟩ := x
    simp only [Res.bind_ok]
    split
    · rfl
    · rw [erase_bind, erase_wrap, erase_readFullE]
      cases readFull 1 r with
      | err k => rfl
      | panic => rfl
      | ok x =>
        obtain ⟨b2, r2⟩ := x
        simp only [Res.bind_ok]
        split
        · rw [erase_bind, erase_wrap, erase_readFullE]
          cases readFull 1 r2 with
          | err k => rfl
          | panic => rfl
          | ok x => obtain ⟨b3, r3⟩ := x; rfl
        · rfl


theorem erase_readMessageHeaderE (c : ChunkStream) (fmt : Nat) (bs : Bytes) :
    (readMessageHeaderE c fmt 0 bs).erase = readMessageHeader c fmt bs := by
  unfold readMessageHeaderE readMessageHeader
  dsimp only
  split
  · rfl
  · split
    · rfl
    · rw [erase_bind, erase_lift]
      cases headerSize fmt with
      | err k => rfl
      | panic => rfl
      | ok n =>
        simp only [Res.bind_ok]
        rw [erase_bind, erase_wrap, erase_readFullE]
        cases readFull n bs with
        | err k => rfl
        | panic => rfl
        | ok x =>
          obtain ⟨p, r⟩ := x
          simp only [Res.bind_ok]
          rw [erase_bind, erase_lift]
          cases applyHeader c fmt c.msg.isNone p with
          | err k => rfl
          | panic => rfl
          | ok y =>
            obtain ⟨h, ext⟩ := y
            simp only [Res.bind_ok]
            rw [erase_bind]
            cases ext with
            | false => rfl
            | true =>
              simp only [if_true]
              rw [erase_bind, erase_wrap, erase_readFullE]
              cases readFull 4 r with
              | err k => rfl
              | panic => rfl
              | ok z => obtain ⟨e, r'⟩ := z; rfl

theorem erase_readMessagePayloadE (ic : Nat) (c : ChunkStream) (bs : Bytes) :
    (readMessagePayloadE ic c 0 bs).erase = readMessagePayload ic c bs := by
  unfold readMessagePayloadE readMessagePayload
  cases c.msg with
  | none => rfl
  | some m =>
    dsimp only
    split
    · rfl
    · split
      · rfl
      · rw [erase_bind, erase_wrap, erase_readFullE]
        cases readFull (min (m.hdr.len - m.payload.length) ic) bs with
        | err k => rfl
        | panic => rfl
        | ok x =>
          obtain ⟨b, r⟩ := x
          simp only [Res.bind_ok]
          split <;> rfl

theorem erase_readChunkE (st : Reader) (bs : Bytes) : (readChunkE st 0 bs).erase = readChunk st bs := by
  unfold readChunkE readChunk
  rw [erase_bind, erase_withMessage, erase_readBasicHeaderE]
  cases readBasicHeader bs with
  | err k => rfl
  | panic => rfl
  | ok x =>
    obtain ⟨⟨fmt, cid⟩, r⟩ := x
    simp only [Res.bind_ok]
    rw [erase_bind, erase_withMessage, erase_readMessageHeaderE]
    cases readMessageHeader (st.chunks.getOrNew cid) fmt r with
    | err k => rfl
    | panic => rfl
    | ok y =>
      obtain ⟨c, r2⟩ := y
      simp only [Res.bind_ok]
      rw [erase_bind, erase_withMessage, erase_readMessagePayloadE]
      cases readMessagePayload st.inChunk c r2 with
      | err k => rfl
      | panic => rfl
      | ok z =>
        obtain ⟨⟨c', m⟩, r3⟩ := z
        simp only [Res.bind_ok]
        cases m with
        | none => rfl
        | some m =>
          dsimp only
          rw [erase_bind, erase_withMessage, erase_lift]
          cases onMessageArrived st.inChunk m with
          | err k => rfl
          | panic => rfl
          | ok ic => rfl

theorem erase_readLoopE : ∀ (fuel : Nat) (st : Reader) (bs : Bytes), (readLoopE fuel st 0 bs).erase = readLoop fuel st bs
  | 0, _, _ => rfl
  | fuel+1, st, bs => by
    unfold readLoopE readLoop
    rw [erase_bind, erase_readChunkE]
    cases readChunk st bs with
    | err k => rfl
    | panic => rfl
    | ok x =>
      obtain ⟨⟨st', m⟩, r⟩ := x
      simp only [Res.bind_ok]
      cases m with
      | none => exact erase_readLoopE fuel st' r
      | some m => rfl

/-- **Erasure**: over a stream that ends, `ReadMessage` with its error layers forgotten is C01's `readMessage`. -/
theorem erase_readMessageE (st : Reader) (bs : Bytes) : (readMessageE st 0 bs).erase = readMessage st bs :=
  erase_readLoopE _ st bs

/-- What C01 proves about `readMessage` holds for the error-carrying reader, over any transport. -/
theorem readMessageE_of_ok {st : Reader} {bs : Bytes} {v : (Msg × Reader) × Bytes} (h : readMessage st bs = .ok v) (t : Nat) :
    readMessageE st t bs = .ok v :=
  (cut_readMessageE st).ok_indep (erase_ok (by rw [erase_readMessageE, h])) t

end Oryx.IoFault
