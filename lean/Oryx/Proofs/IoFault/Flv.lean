/-
  C08 — the FLV demuxer over a transport that ends or fails: cut property (io.CopyN rule: exactly the
  transport's error), erasure to the class-only model of C09, and the file-level cut theorem for every
  transport error (for `t = 0` it is C09's `demux_truncated`).
-/
import Oryx.Proofs.IoFault.Erase
namespace Oryx.IoFault
open Oryx Oryx.Errors Oryx.Flv

/-! ### cut property -/

theorem cutN_flvReadHeaderE : CutN flvReadHeaderE := by
  unfold flvReadHeaderE
  refine CutG.bind (CutN.copyNE 13) fun p => ?_
  refine CutG.bind (CutG.lift _) fun sig => ?_
  refine CutG.ite _ (CutG.fail _) ?_
  exact CutG.bind (CutG.lift _) fun v => CutG.bind (CutG.lift _) fun f => CutG.pure _

theorem cutN_flvReadTagHeaderE : CutN flvReadTagHeaderE := by
  unfold flvReadTagHeaderE
  refine CutG.bind (CutN.copyNE 11) fun p => ?_
  split
  · exact CutG.pure _
  · exact CutG.panic

theorem cutN_flvReadTagE (size : Nat) : CutN (flvReadTagE size) := by
  unfold flvReadTagE
  refine CutG.bind (CutN.copyNE _) fun p => ?_
  exact CutG.ite _ CutG.panic (CutG.pure _)

theorem cutN_flvReadTagFullE : CutN flvReadTagFullE := by
  unfold flvReadTagFullE
  exact CutG.bind cutN_flvReadTagHeaderE fun h => CutG.bind (cutN_flvReadTagE _) fun b => CutG.pure _

/-! ### erasure to Oryx.Flv (C09's model) -/

theorem erase_copyNE_flv (n : Nat) (s : Bytes) : (copyNE n 0 s).erase = Flv.copyN n s := by
  rw [copyNE_eq]
  unfold Flv.copyN
  by_cases hl : s.length < n
  · rw [if_pos hl, if_neg (by omega)]; rfl
  · rw [if_neg hl, if_pos (by omega)]; rfl

theorem erase_flvReadHeaderE (s : Bytes) : (flvReadHeaderE 0 s).erase = Flv.readHeader s := by
  unfold flvReadHeaderE Flv.readHeader
  rw [erase_bind, erase_copyNE_flv]
  cases Flv.copyN 13 s with
  | err k => rfl
  | panic => rfl
  | ok x =>
    obtain ⟨p, r⟩ := x
    simp only [Res.bind_ok]
    rw [erase_bind, erase_lift]
    cases sliceTo p 3 with
    | err k => rfl
    | panic => rfl
    | ok sig =>
      simp only [Res.bind_ok]
      split
      · rfl
      · rw [erase_bind, erase_lift]
        cases idx p 3 with
        | err k => rfl
        | panic => rfl
        | ok v =>
          simp only [Res.bind_ok]
          rw [erase_bind, erase_lift]
          cases idx p 4 with
          | err k => rfl
          | panic => rfl
          | ok f => rfl

theorem erase_flvReadTagHeaderE (s : Bytes) : (flvReadTagHeaderE 0 s).erase = Flv.readTagHeader s := by
  unfold flvReadTagHeaderE Flv.readTagHeader
  rw [erase_bind, erase_copyNE_flv]
  cases Flv.copyN 11 s with
  | err k => rfl
  | panic => rfl
  | ok x =>
    obtain ⟨p, r⟩ := x
    simp only [Res.bind_ok]
    split
    · rfl
    · rename_i hne
      split
      · rename_i b0 b1 b2 b3 b4 b5 b6 b7 b8 b9 b10
        exact absurd rfl (hne b0 b1 b2 b3 b4 b5 b6 b7 b8 b9 b10)
      · rfl

theorem erase_flvReadTagE (size : Nat) (s : Bytes) : (flvReadTagE size 0 s).erase = Flv.readTag size s := by
  unfold flvReadTagE Flv.readTag
  rw [erase_bind, erase_copyNE_flv]
  cases Flv.copyN (size + 4) s with
  | err k => rfl
  | panic => rfl
  | ok x =>
    obtain ⟨p, r⟩ := x
    simp only [Res.bind_ok]
    split <;> rfl

theorem erase_flvReadTagFullE (s : Bytes) : (flvReadTagFullE 0 s).erase = Flv.readTagFull s := by
  unfold flvReadTagFullE Flv.readTagFull
  rw [erase_bind, erase_flvReadTagHeaderE]
  cases Flv.readTagHeader s with
  | err k => rfl
  | panic => rfl
  | ok x =>
    obtain ⟨h, r⟩ := x
    simp only [Res.bind_ok]
    rw [erase_bind, erase_flvReadTagE]
    cases Flv.readTag h.size r with
    | err k => rfl
    | panic => rfl
    | ok y => obtain ⟨b, r2⟩ := y; rfl

/-- Forget the layers of a loop's stop reason. -/
def StopE.erase : StopE → Flv.Stop
  | .err e => .err e.cls
  | .panic => .panic

theorem erase_flvReadTagsE : ∀ (fuel : Nat) (s : Bytes),
    ((flvReadTagsE fuel 0 s).1, (flvReadTagsE fuel 0 s).2.erase) = Flv.readTags fuel s
  | 0, _ => rfl
  | fuel+1, s => by
    have h := erase_flvReadTagFullE s
    unfold flvReadTagsE Flv.readTags
    cases hx : flvReadTagFullE 0 s with
    | ok x =>
      obtain ⟨tg, r⟩ := x
      rw [hx] at h
      simp only [ResE.erase] at h
      rw [← h]
      have ih := erase_flvReadTagsE fuel r
      simp only [← ih]
    | err e => rw [hx] at h; simp only [ResE.erase] at h; rw [← h]; rfl
    | panic => rw [hx] at h; simp only [ResE.erase] at h; rw [← h]; rfl

/-- **Erasure**: over a stream that ends, the error-carrying demuxer with its errors reduced to classes is
C09's `Flv.demux`. -/
theorem erase_flvDemuxE (s : Bytes) :
    (match flvDemuxE 0 s with
     | .ok (h, tags, st) => Res.ok (h, tags, st.erase)
     | .err e => .err e.cls
     | .panic => .panic) = Flv.demux s := by
  have h := erase_flvReadHeaderE s
  unfold flvDemuxE Flv.demux
  cases hx : flvReadHeaderE 0 s with
  | ok x =>
    obtain ⟨hd, r⟩ := x
    rw [hx] at h
    simp only [ResE.erase] at h
    rw [← h]
    simp only [Res.bind_ok, Res.pure_eq]
    rw [← erase_flvReadTagsE]
  | err e => rw [hx] at h; simp only [ResE.erase] at h; rw [← h]; rfl
  | panic => rw [hx] at h; simp only [ResE.erase] at h; rw [← h]; rfl

/-! ### what C09 proves about the class-only readers holds over every transport -/

theorem flvReadTagFullE_writeTag (t : Nat) (tg : Tag) (rest : Bytes) (h : tg.WF) :
    flvReadTagFullE t (writeTag tg ++ rest) = .ok (tg, rest) :=
  cutN_flvReadTagFullE.ok_indep
    (erase_ok (by rw [erase_flvReadTagFullE, Flv.readTagFull_writeTag tg rest h])) t

theorem flvReadHeaderE_writeHeader (t : Nat) (hv ha : Bool) (rest : Bytes) :
    flvReadHeaderE t (writeHeader hv ha ++ rest) = .ok ({ version := 1, hasVideo := hv, hasAudio := ha }, rest) :=
  cutN_flvReadHeaderE.ok_indep
    (erase_ok (by rw [erase_flvReadHeaderE, Flv.readHeader_writeHeader hv ha rest])) t

/-- A strict prefix of one muxed tag is never a tag: the step ends with exactly the transport's error. -/
theorem flvReadTagFullE_cut (t : Nat) (tg : Tag) (h : tg.WF) (k : Nat) (hk : k < 15 + tg.body.length) :
    ∃ e, flvReadTagFullE t ((writeTag tg).take k) = .err e ∧ e.cause = .root t := by
  obtain ⟨n, hl, hcut⟩ := cutN_flvReadTagFullE 0 _ _ _ (flvReadTagFullE_writeTag 0 tg [] h)
  simp only [List.append_nil, writeTag_length, List.length_nil, Nat.add_zero] at hl hcut
  exact (hcut t k).2 (by omega)

/-- **Tags cut**, every transport error `t`: on the first `k` bytes of a muxed tag sequence the loop returns
exactly the tags wholly contained in those bytes, in order, then the transport's error. -/
theorem flv_tags_cut (t : Nat) (tags : List Tag) (hwf : ∀ tg ∈ tags, tg.WF) :
    ∀ k fuel, ((writeTags tags).take k).length < fuel →
      ∃ e, flvReadTagsE fuel t ((writeTags tags).take k) = (wholeTags k tags, .err e) ∧ e.cause = .root t := by
  induction tags with
  | nil =>
    intro k fuel hf
    obtain ⟨f, rfl⟩ : ∃ f, fuel = f + 1 := ⟨fuel - 1, by omega⟩
    refine ⟨.root t, ?_, rfl⟩
    simp [writeTags, flvReadTagsE, wholeTags, flvReadTagFullE, flvReadTagHeaderE, SP.bind_apply, copyNE_eq]
  | cons tg ts ih =>
    intro k fuel hf
    obtain ⟨f, rfl⟩ : ∃ f, fuel = f + 1 := ⟨fuel - 1, by omega⟩
    have ht := hwf tg (by simp)
    have hts : ∀ x ∈ ts, x.WF := fun x hx => hwf x (by simp [hx])
    by_cases hk : 15 + tg.body.length ≤ k
    · have e : (writeTags (tg :: ts)).take k = writeTag tg ++ (writeTags ts).take (k - (15 + tg.body.length)) := by
        simp only [writeTags]
        rw [List.take_append, writeTag_length, List.take_of_length_le (by simp; omega)]
      rw [e] at hf ⊢
      simp only [List.length_append, writeTag_length] at hf
      obtain ⟨e', he', hc'⟩ := ih hts (k - (15 + tg.body.length)) f (by omega)
      exact ⟨e', by simp only [flvReadTagsE, flvReadTagFullE_writeTag t tg _ ht, he', wholeTags, if_pos hk], hc'⟩
    · have e : (writeTags (tg :: ts)).take k = (writeTag tg).take k := by
        simp only [writeTags]
        rw [List.take_append, writeTag_length, show k - (15 + tg.body.length) = 0 by omega]
        simp
      obtain ⟨e', he', hc'⟩ := flvReadTagFullE_cut t tg ht k (by omega)
      exact ⟨e', by rw [e]; simp only [flvReadTagsE, he', wholeTags, if_neg hk], hc'⟩

/-- **File cut**, every transport error `t` and every offset `k` of a muxed file. -/
theorem flv_demux_cut (t : Nat) (hv ha : Bool) (tags : List Tag) (hwf : ∀ tg ∈ tags, tg.WF) (k : Nat) :
    (k < 13 → ∃ e, flvDemuxE t ((mux hv ha tags).take k) = .err e ∧ e.cause = .root t) ∧
    (13 ≤ k → ∃ e, flvDemuxE t ((mux hv ha tags).take k) =
        .ok ({ version := 1, hasVideo := hv, hasAudio := ha }, wholeTags (k - 13) tags, .err e) ∧ e.cause = .root t) := by
  unfold mux
  refine ⟨fun hk => ?_, fun hk => ?_⟩
  · obtain ⟨n, hl, hcut⟩ := cutN_flvReadHeaderE 0 _ _ _ (flvReadHeaderE_writeHeader 0 hv ha (writeTags tags))
    simp only [List.length_append, writeHeader_length] at hl
    obtain ⟨e, he, hc⟩ := (hcut t k).2 (by omega)
    exact ⟨e, by simp only [flvDemuxE, he], hc⟩
  · rw [List.take_append, writeHeader_length, List.take_of_length_le (by simp; omega)]
    obtain ⟨e, he, hc⟩ := flv_tags_cut t tags hwf (k - 13) _ (Nat.lt_succ_self _)
    exact ⟨e, by simp only [flvDemuxE, flvReadHeaderE_writeHeader, he], hc⟩

end Oryx.IoFault
