/-
  C08 — model of /repo/errors/errors.go (the fork of pkg/errors the library wraps every I/O error with)
  and the error-carrying stream-parser monad used by the fault models of the RTMP / FLV I/O paths
  (Oryx/Model/IoFault.lean). Hand-written; tied to the Go code by `corr C08`. Core Lean only.

  errors.go, as it is:
    New / Errorf            → a `fundamental` (a root: it has no `Cause()` method)
    WithStack(err)          → nil if err == nil, else &withStack{err}
    WithMessage(err, msg)   → nil if err == nil, else &withMessage{cause: err, msg}
    Wrap(err, msg)          → nil if err == nil, else &withStack{&withMessage{cause: err, msg}}   (message INSIDE, stack OUTSIDE)
    Wrapf                   = Wrap with a formatted message
    (*withMessage).Error()  = msg + ": " + cause.Error();   (*withStack).Error() = the embedded error's Error()
    Cause(err)              → follows `Cause()` while the value has that method

  Roots are opaque ids; their own `Error()` text is a parameter (`rootText`):
    0 = io.EOF, 1 = io.ErrUnexpectedEOF, 2 = the harness's injected sentinel, n ≥ 3 = any other root
    (a `fundamental` made by `errors.New/Errorf`, a stdlib error, …).
-/
import Oryx.Base.Stream
namespace Oryx.Errors
open Oryx

/-- A non-nil Go `error` value built by the errors package over a root. -/
inductive Err where
  | root (r : Nat)
  | withMessage (msg : String) (e : Err)
  | withStack (e : Err)
  deriving DecidableEq, Repr, Inhabited

namespace Err

/-- `errors.Cause`: strip every layer that has a `Cause()` method. -/
def cause : Err → Err
  | root r => root r
  | withMessage _ e => e.cause
  | withStack e => e.cause

/-- `errors.Cause` that stops one layer early would be `cause1` — kept only to state that the real one does not. -/
def unwrap1 : Err → Err
  | root r => root r
  | withMessage _ e => e
  | withStack e => e

/-- Text of the well-known roots; any other root `n` prints as `r<n>` (the harness creates it with that text). -/
def rootText (r : Nat) : String :=
  if r = 0 then "EOF" else if r = 1 then "unexpected EOF" else if r = 2 then "injected transport fault"
  else "r" ++ toString r

/-- `err.Error()`. -/
def message : Err → String
  | root r => rootText r
  | withMessage m e => m ++ ": " ++ e.message
  | withStack e => e.message

/-- The messages of the `withMessage` layers, outer to inner. -/
def messages : Err → List String
  | root _ => []
  | withMessage m e => m :: e.messages
  | withStack e => e.messages

/-- Layer shape, outer to inner: `M` = withMessage, `S` = withStack, then `R<root id>`. -/
def shape : Err → String
  | root r => "R" ++ toString r
  | withMessage _ e => "M" ++ e.shape
  | withStack e => "S" ++ e.shape

/-- Number of layers above the root. -/
def depth : Err → Nat
  | root _ => 0
  | withMessage _ e => e.depth + 1
  | withStack e => e.depth + 1

end Err

/-- `a: b: c` — the parts joined by `": "`. -/
def joinColon : List String → String
  | [] => ""
  | [a] => a
  | a :: rest => a ++ ": " ++ joinColon rest

/-! ### the constructors as the Go API has them: on a possibly-nil `error` -/

def withStack : Option Err → Option Err
  | none => none
  | some e => some (.withStack e)

def withMessage (msg : String) : Option Err → Option Err
  | none => none
  | some e => some (.withMessage msg e)

/-- `Wrap`: the message layer first, the stack layer around it. -/
def wrap (msg : String) : Option Err → Option Err
  | none => none
  | some e => some (.withStack (.withMessage msg e))

/-- `Wrapf(err, format, args…)`: `msg` is the already formatted text. -/
def wrapf (msg : String) : Option Err → Option Err := wrap msg

/-- `errors.Cause` on a possibly-nil error. -/
def causeO : Option Err → Option Err
  | none => none
  | some e => some e.cause

/-- One constructor call of the API. -/
inductive Layer where
  | withMessage (msg : String)
  | withStack
  | wrap (msg : String)
  | wrapf (msg : String)
  deriving DecidableEq, Repr

def Layer.apply : Layer → Option Err → Option Err
  | .withMessage m => Errors.withMessage m
  | .withStack => Errors.withStack
  | .wrap m => Errors.wrap m
  | .wrapf m => Errors.wrapf m

/-- The message a layer contributes to the chain (a bare stack layer contributes none). -/
def Layer.msg : Layer → List String
  | .withMessage m => [m]
  | .withStack => []
  | .wrap m => [m]
  | .wrapf m => [m]

/-- A tower: `ls = [l₁, …, lₙ]` applied innermost-last, i.e. `l₁ (l₂ (… (lₙ e)))` — `l₁` is the outermost call. -/
def build : List Layer → Option Err → Option Err
  | [], e => e
  | l :: ls, e => l.apply (build ls e)

/-! ### results that carry the error value -/

/-- Result of a modelled Go call whose error is a value of the errors package. -/
inductive ResE (α : Type) where
  | ok (a : α)
  | err (e : Err)
  | panic
  deriving Repr

/-- Root id ↔ error class of the class-only models (`Oryx.Res`). -/
def rootOfEK : EK → Nat
  | .eof => 0 | .ueof => 1 | .inject => 2 | .generic => 3

def ekOfRoot (r : Nat) : EK :=
  if r = 0 then .eof else if r = 1 then .ueof else if r = 2 then .inject else .generic

/-- The class the harness sees: `h.ErrClass(err)` = the class of `errors.Cause(err)`. -/
def Err.cls (e : Err) : EK :=
  match e.cause with
  | .root r => ekOfRoot r
  | _ => .generic

/-- Forget the layers: the class-only result. -/
def ResE.erase : ResE α → Res α
  | .ok a => .ok a
  | .err e => .err e.cls
  | .panic => .panic

/-- Stream parser over a transport that delivers the given bytes and then reports root `t` on every further
read: `t = 0` (io.EOF) is a stream that ENDS there (a cut); any other `t` is a FAILING transport. -/
def SP (α : Type) := Nat → Bytes → ResE (α × Bytes)

namespace SP

protected def pure (a : α) : SP α := fun _ bs => .ok (a, bs)

protected def bind (p : SP α) (f : α → SP β) : SP β := fun t bs =>
  match p t bs with
  | .ok (a, r) => f a t r
  | .err e => .err e
  | .panic => .panic

instance : Monad SP where
  pure := SP.pure
  bind := SP.bind

/-- `return errors.New/Errorf(…)` or any error that is not the transport's. -/
def fail (e : Err) : SP α := fun _ _ => .err e

def panic : SP α := fun _ _ => .panic

/-- A computation of the class-only model that does not touch the stream (its errors are fresh roots). -/
def lift (r : Res α) : SP α := fun _ bs =>
  match r with
  | .ok a => .ok (a, bs)
  | .err k => .err (.root (rootOfEK k))
  | .panic => .panic

/-- `if err != nil { return f(err) }`. -/
def mapErr (f : Err → Err) (p : SP α) : SP α := fun t bs =>
  match p t bs with
  | .err e => .err (f e)
  | r => r

/-- `if err != nil { return errors.Wrap(err, msg) }`. -/
def wrap (msg : String) (p : SP α) : SP α := p.mapErr fun e => .withStack (.withMessage msg e)

/-- `if err != nil { return errors.WithMessage(err, msg) }`. -/
def withMessage (msg : String) (p : SP α) : SP α := p.mapErr (.withMessage msg)

end SP

/-- `io.ReadFull(r, make([]byte, n))` / `binary.Read` of an n-byte value. `n = 0` returns without reading.
Fewer than `n` bytes before the transport reports `t`: a transport that ENDS gives io.EOF when no byte
arrived and io.ErrUnexpectedEOF otherwise; a FAILING transport's error is returned as it is. -/
def readFullE (n : Nat) : SP Bytes := fun t bs =>
  if n = 0 then .ok ([], bs) else
  let a := bs.take n
  if a.length < n then .err (.root (if t = 0 then (if bs.isEmpty then 0 else 1) else t))
  else .ok (a, bs.drop n)

/-- `io.CopyN(&bytes.Buffer{}, r, n)`: short source = the transport's error (io.EOF for a stream that ends,
also after a partial copy). -/
def copyNE (n : Nat) : SP Bytes := fun t bs =>
  let a := bs.take n
  if a.length < n then .err (.root t) else .ok (a, bs.drop n)

end Oryx.Errors
