/-
  Model of the RTMP chunk layer of /repo/rtmp/rtmp.go (handshake, readBasicHeader,
  readMessageHeader, readMessagePayload, onMessageArrivated, ReadMessage, generateC0Header,
  generateC3Header, WriteMessage). Hand-written; tied to the Go code by `corr C01` / `corr C02`
  and to the extracted tables in Oryx.Gen.Rtmp. Core Lean only.
-/
import Oryx.Base.Stream
import Oryx.Gen.Rtmp
namespace Oryx.Rtmp
open Oryx Oryx.Res

/-- `messageHeader` (field widths in comments are Go's). -/
structure Header where
  tsDelta : Nat := 0   -- uint32
  len : Nat := 0       -- payloadLength uint32
  ty : Nat := 0        -- MessageType uint8
  sid : Nat := 0       -- streamID uint32
  cid : Nat := 0       -- betterCid
  ts : Nat := 0        -- Timestamp uint64
  deriving DecidableEq, Repr, Inhabited

/-- `Message` = header + payload. -/
structure Msg where
  hdr : Header := {}
  payload : Bytes := []
  deriving DecidableEq, Repr, Inhabited

/-- `chunkStream`; `msg` is the Go pointer `chunk.message` (nil = none). -/
structure ChunkStream where
  cid : Nat := 0
  hdr : Header := {}
  msg : Option Msg := none
  count : Nat := 0
  extTs : Bool := false
  deriving DecidableEq, Repr, Inhabited

/-- Association list used as `map[chunkID]*chunkStream`. -/
abbrev Chunks := List (Nat × ChunkStream)

def Chunks.get (l : Chunks) (k : Nat) : Option ChunkStream :=
  match l with
  | [] => none
  | (k', v) :: rest => if k' = k then some v else Chunks.get rest k

def Chunks.set (l : Chunks) (k : Nat) (v : ChunkStream) : Chunks :=
  match l with
  | [] => [(k, v)]
  | (k', v') :: rest => if k' = k then (k, v) :: rest else (k', v') :: Chunks.set rest k v

/-- `chunks[cid]`, or a new chunk stream that knows its id when the map has none. -/
def Chunks.getOrNew (l : Chunks) (cid : Nat) : ChunkStream :=
  match l.get cid with
  | some c => c
  | none => { cid := cid, hdr := { cid := cid } }

/-- Reader half of `Protocol`: input chunk size and chunk-stream table. -/
structure Reader where
  inChunk : Nat := Gen.Rtmp.defaultChunkSize
  chunks : Chunks := []
  deriving DecidableEq, Repr, Inhabited

/-! ### reader -/

/-- `readBasicHeader`: (fmt, cid). -/
def readBasicHeader (bs : Bytes) : Res ((Nat × Nat) × Bytes) := do
  let (b, bs) ← readFull 1 bs
  let t := (b.headD 0).toNat
  let cid := t % 64
  let fmt := t / 64
  if cid > 1 then pure ((fmt, cid), bs) else
  let (b2, bs) ← readFull 1 bs
  let cid2 := 64 + (b2.headD 0).toNat
  if cid = 1 then
    let (b3, bs) ← readFull 1 bs
    pure ((fmt, cid2 + (b3.headD 0).toNat * 256), bs)
  else pure ((fmt, cid2), bs)

def headerSize (fmt : Nat) : Res Nat := idx Gen.Rtmp.messageHeaderSizes fmt

/-- The pure part of `readMessageHeader` after the `fmt`-dependent bytes `p` were read:
updates header and the extended-timestamp flag (before the extended timestamp itself). -/
def applyHeader (c : ChunkStream) (fmt : Nat) (isFirst : Bool) (p : Bytes) : Res (Header × Bool) :=
  if fmt ≤ 2 then
    let delta := ofBE (p.take 3)
    let ext := decide (delta ≥ Gen.Rtmp.extendedTimestamp)
    let h : Header := { c.hdr with tsDelta := delta }
    let h : Header := if ext then h else if fmt = 0 then { h with ts := delta } else { h with ts := h.ts + delta }
    if fmt ≤ 1 then
      let plen := ofBE ((p.drop 3).take 3)
      if !isFirst && h.len != plen then err .generic else
      let h : Header := { h with len := plen, ty := ((p.drop 6).headD 0).toNat }
      if fmt = 0 then ok ({ h with sid := ofLE ((p.drop 7).take 4) }, ext) else ok (h, ext)
    else ok (h, ext)
  else
    if isFirst && !c.extTs then ok ({ c.hdr with ts := c.hdr.ts + c.hdr.tsDelta }, c.extTs)
    else ok (c.hdr, c.extTs)

/-- `readMessageHeader`. -/
def readMessageHeader (c : ChunkStream) (fmt : Nat) (bs : Bytes) : Res (ChunkStream × Bytes) := do
  let isFirst := c.msg.isNone
  if c.count = 0 ∧ fmt ≠ 0 ∧ ¬ (c.cid = Gen.Rtmp.chunkIDProtocolControl ∧ fmt = 1) then err .generic else
  if c.msg.isSome ∧ fmt = 0 then err .generic else
  let payload := match c.msg with | some m => m.payload | none => []
  let n ← headerSize fmt
  let (p, bs) ← readFull n bs
  let (h, ext) ← applyHeader c fmt isFirst p
  let (h, bs) ← (if ext then do
      let (e, bs) ← readFull 4 bs
      pure ({ h with ts := ofBE e % 2147483648 }, bs)
    else pure (h, bs) : Res (Header × Bytes))
  let h : Header := { h with ts := h.ts % 2147483648 }
  pure ({ c with hdr := h, msg := some { hdr := h, payload := payload }, count := c.count + 1, extTs := ext }, bs)

/-- `readMessagePayload`: returns the updated chunk stream and the message when complete. -/
def readMessagePayload (inChunk : Nat) (c : ChunkStream) (bs : Bytes) :
    Res ((ChunkStream × Option Msg) × Bytes) :=
  match c.msg with
  | none => .panic  -- nil dereference (unreachable: readMessageHeader always sets it)
  | some m =>
    if m.hdr.len = 0 then ok (({ c with msg := none }, some m), bs) else
    if m.hdr.len < m.payload.length then .panic  -- make([]byte, negative)
    else do
      let n := min (m.hdr.len - m.payload.length) inChunk
      let (b, bs) ← readFull n bs
      let m' : Msg := { m with payload := m.payload ++ b }
      if m.hdr.len = m'.payload.length then pure (({ c with msg := none }, some m'), bs)
      else pure (({ c with msg := some m' }, none), bs)

/-- `UserControl.Size()` for an event type. -/
def userControlSize (evt : Nat) : Nat :=
  2 + (if evt = Gen.Rtmp.EventTypeFmsEvent0 then 1 else 4) + (if evt = Gen.Rtmp.EventTypeSetBufferLength then 4 else 0)

/-- `onMessageArrivated`: decodes the three control messages it looks at (any decode error is an
error of the read) and applies Set Chunk Size to the input chunk size. -/
def onMessageArrived (inChunk : Nat) (m : Msg) : Res Nat :=
  if m.hdr.ty = Gen.Rtmp.MessageTypeSetChunkSize then
    if m.payload.length < 4 then err .generic else ok (ofBE (m.payload.take 4))
  else if m.hdr.ty = Gen.Rtmp.MessageTypeWindowAcknowledgementSize then
    if m.payload.length < 4 then err .generic else ok inChunk
  else if m.hdr.ty = Gen.Rtmp.MessageTypeUserControl then
    if m.payload.length < 3 then err .generic
    else if m.payload.length < userControlSize (ofBE (m.payload.take 2)) then err .generic
    else ok inChunk
  else ok inChunk

/-- One iteration of the `for m == nil` loop of `ReadMessage`. -/
def readChunk (st : Reader) (bs : Bytes) : Res ((Reader × Option Msg) × Bytes) := do
  let ((fmt, cid), bs) ← readBasicHeader bs
  let c := st.chunks.getOrNew cid
  let (c, bs) ← readMessageHeader c fmt bs
  let ((c, m), bs) ← readMessagePayload st.inChunk c bs
  let st : Reader := { st with chunks := st.chunks.set cid c }
  match m with
  | none => pure ((st, none), bs)
  | some m =>
    let inChunk ← onMessageArrived st.inChunk m
    pure (({ st with inChunk := inChunk }, some m), bs)

/-- `ReadMessage`: loop until a message completes. Every iteration consumes at least the basic
header byte, so `fuel = bs.length + 1` is never exhausted (`readMessage_fuel`). -/
def readLoop : Nat → Reader → Bytes → Res ((Msg × Reader) × Bytes)
  | 0, _, _ => .panic
  | fuel+1, st, bs => do
    let ((st, m), bs) ← readChunk st bs
    match m with
    | some m => pure ((m, st), bs)
    | none => readLoop fuel st bs

def readMessage (st : Reader) (bs : Bytes) : Res ((Msg × Reader) × Bytes) :=
  readLoop (bs.length + 1) st bs

/-- Read `k` messages. -/
def readMessages : Nat → Reader → Bytes → Res ((List Msg × Reader) × Bytes)
  | 0, st, bs => ok (([], st), bs)
  | k+1, st, bs => do
    let ((m, st), bs) ← readMessage st bs
    let ((ms, st), bs) ← readMessages k st bs
    pure ((m :: ms, st), bs)

/-! ### writer -/

/-- The 4-byte extended timestamp both generated headers append when `ts ≥ 0xFFFFFF`. -/
def extTsBytes (ts : Nat) : Bytes :=
  if ts < Gen.Rtmp.extendedTimestamp then [] else be 4 ts

/-- `generateC0Header` (with `payloadLength = len(Payload)` as `WriteMessage` sets it). -/
def c0Header (m : Msg) : Bytes :=
  [UInt8.ofNat (m.hdr.cid % 64)] ++
  (if m.hdr.ts < Gen.Rtmp.extendedTimestamp then be 3 m.hdr.ts else [0xff, 0xff, 0xff]) ++
  be 3 m.payload.length ++ [UInt8.ofNat m.hdr.ty] ++ le 4 m.hdr.sid ++ extTsBytes m.hdr.ts

/-- `generateC3Header`. -/
def c3Header (m : Msg) : Bytes :=
  [UInt8.ofNat (192 + m.hdr.cid % 64)] ++ extTsBytes m.hdr.ts

/-- The chunk loop of `WriteMessage`: `first` selects the type-0 header. With chunk size 0 the Go
loop never terminates; the model's fuel runs out instead (`.panic` stands for divergence there). -/
def writeChunks (c : Nat) (m : Msg) : Nat → Bool → Bytes → Res Bytes
  | _, _, [] => ok []
  | 0, _, _ :: _ => .panic
  | fuel+1, first, p@(_ :: _) => do
    let h := if first then c0Header m else c3Header m
    let size := (p.take c).length  -- = min (len p) c, without walking all of p
    let rest ← writeChunks c m fuel false (p.drop size)
    pure (h ++ p.take size ++ rest)

/-- `WriteMessage`: bytes put on the wire. -/
def writeMessage (c : Nat) (m : Msg) : Res Bytes := writeChunks c m m.payload.length true m.payload

/-- Output chunk size after writing `m` (our own Set Chunk Size applies to what follows). -/
def outChunkAfter (c : Nat) (m : Msg) : Nat :=
  if m.hdr.ty = Gen.Rtmp.MessageTypeSetChunkSize ∧ 4 ≤ m.payload.length then ofBE (m.payload.take 4) else c

/-- Write a list of messages, threading the output chunk size. -/
def writeAll : Nat → List Msg → Res Bytes
  | _, [] => ok []
  | c, m :: ms => do
    let a ← writeMessage c m
    let b ← writeAll (outChunkAfter c m) ms
    pure (a ++ b)

/-! ### an endpoint: one `Protocol` that writes and reads -/

/-- ONE `Protocol` object: the reader's state (`input`: chunk streams, input chunk size) and the writer's chunk
size (`output`). `NewProtocol` gives each side its own settings object; nothing of one side is part of the other. -/
structure Endpoint where
  rd : Reader := {}
  out : Nat := Gen.Rtmp.defaultChunkSize

/-- What the application does with its endpoint. -/
inductive EAct where
  | write (m : Msg)
  | read

/-- One action against the transport: `inb` are the bytes that arrived and are not yet consumed. Result: the
endpoint afterwards, the bytes it put on the wire, the message it delivered (a read), what is left of `inb`. -/
def Endpoint.step (e : Endpoint) (inb : Bytes) : EAct → Res ((Endpoint × Bytes) × (Option Msg × Bytes))
  | .write m => do
    let w ← writeMessage e.out m
    pure (({ e with out := outChunkAfter e.out m }, w), (none, inb))
  | .read => do
    let ((m, rd'), rest) ← readMessage e.rd inb
    pure (({ e with rd := rd' }, []), (some m, rest))

/-- A whole schedule of writes and reads, in the order the application issues them. -/
def Endpoint.run (e : Endpoint) (inb : Bytes) : List EAct → Res ((Endpoint × Bytes) × (List Msg × Bytes))
  | [] => ok ((e, []), ([], inb))
  | a :: as => do
    let ((e1, w1), (m1, in1)) ← e.step inb a
    let ((e2, w2), (ms, in2)) ← e1.run in1 as
    pure ((e2, w1 ++ w2), (m1.toList ++ ms, in2))

def writesOf : List EAct → List Msg
  | [] => []
  | .write m :: as => m :: writesOf as
  | .read :: as => writesOf as

def readsOf : List EAct → Nat
  | [] => 0
  | .write _ :: as => readsOf as
  | .read :: as => readsOf as + 1

/-- The writer's chunk size after a list of messages. -/
def outAfterAll : Nat → List Msg → Nat
  | c, [] => c
  | c, m :: ms => outAfterAll (outChunkAfter c m) ms

/-! ### handshake (simple handshake: C0/S0 1 byte, C1/S1 1536, C2/S2 1536) -/

def hsReadC0 (bs : Bytes) := copyN 1 bs
def hsReadC1 (bs : Bytes) := copyN 1536 bs
def hsReadC2 (bs : Bytes) := copyN 1536 bs

/-- What one side writes: version 3, C1 (8 zero bytes + 1528 arbitrary), C2 = echo of the peer's C1/S1. -/
def hsWrite (c1tail peerC1 : Bytes) : Bytes := [3] ++ (List.replicate 8 0 ++ c1tail) ++ peerC1

end Oryx.Rtmp
