/-
  Model of the WRITE DEADLINE discipline of websocket.Conn (conn.go: Conn.write, Conn.WriteControl, Conn.writeFatal).

  The transport (a net.Conn) has ONE write deadline, shared by everything that writes to it: the data path
  (Conn.write, under the connection's own deadline set with SetWriteDeadline, zero = none) and the control path
  (WriteControl with the deadline of that call; the pong the library sends by itself, the close replies). A write to the
  transport after the armed deadline fails; a failed write latches writeErr and every later write fails.

  `armOwn` is the fact read from the source (Gen.Websocket.writesArmOwnDeadline): every writing function arms the
  transport with the deadline of its own write, unconditionally, before it writes. With `armOwn = false` the model is
  the variant that skips arming when its own deadline is "none" (the transport keeps what an earlier frame armed).

  Time is a natural number (any unit); a deadline `some d` has passed at time `now` iff `d < now`.
-/
namespace Oryx.Model.WsDeadline

structure Conn where
  armed   : Option Nat := none     -- the write deadline armed on the transport
  latched : Bool := false          -- writeErr is set
  wire    : List Nat := []         -- ids of the frames on the wire, in order
  deriving Repr, DecidableEq

inductive Op where
  /-- a data frame at time `now`, the connection's write deadline being `dl` -/
  | data (now : Nat) (dl : Option Nat) (id : Nat)
  /-- `WriteControl(…, deadline)` at time `now` -/
  | control (now : Nat) (dl : Option Nat) (id : Nat)
  deriving Repr, DecidableEq

def passed (now : Nat) : Option Nat → Bool
  | none => false
  | some d => d < now

/-- the transport write at the end of both paths -/
def transportWrite (c : Conn) (now id : Nat) (armed : Option Nat) : Conn × Bool :=
  if passed now armed then ({ c with armed := armed, latched := true }, false)
  else ({ c with armed := armed, wire := c.wire ++ [id] }, true)

def step (armOwn : Bool) (c : Conn) : Op → Conn × Bool
  | .data now dl id =>
    if c.latched then (c, false)
    else transportWrite c now id (if armOwn || dl.isSome then dl else c.armed)
  | .control now dl id =>
    -- `d := deadline.Sub(time.Now()); if d < 0 { return errWriteTimeout }` — before the lock, nothing latched
    if passed now dl then (c, false)
    else if c.latched then (c, false)
    else transportWrite c now id (if armOwn || dl.isSome then dl else c.armed)

def run (armOwn : Bool) : Conn → List Op → Conn × List Bool
  | c, [] => (c, [])
  | c, op :: ops =>
    let r := step armOwn c op
    let rest := run armOwn r.1 ops
    (rest.1, r.2 :: rest.2)

/-! The specification: the outcome of a write depends on the deadlines of the writes themselves — its own, and those
of the earlier DATA writes that timed out (the documented latch) — never on a deadline some other frame was sent under. -/

structure Spec where
  latched : Bool := false
  wire    : List Nat := []
  deriving Repr, DecidableEq

def specStep (s : Spec) : Op → Spec × Bool
  | .data now dl id =>
    if s.latched then (s, false)
    else if passed now dl then ({ s with latched := true }, false)
    else ({ s with wire := s.wire ++ [id] }, true)
  | .control now dl id =>
    if passed now dl then (s, false)
    else if s.latched then (s, false)
    else ({ s with wire := s.wire ++ [id] }, true)

def specRun : Spec → List Op → Spec × List Bool
  | s, [] => (s, [])
  | s, op :: ops =>
    let r := specStep s op
    let rest := specRun r.1 ops
    (rest.1, r.2 :: rest.2)

def Op.ownDeadlineOk : Op → Bool
  | .data now dl _ => !passed now dl
  | .control now dl _ => !passed now dl

def Op.id : Op → Nat
  | .data _ _ id => id
  | .control _ _ id => id

end Oryx.Model.WsDeadline
