/-
  Model of the read side of /repo/websocket/conn.go (REPAIRED tree: F14, F20, F21 fixed):
  `Conn.read`, `advanceFrame`, `handleProtocolError`, `NextReader`, `messageReader.Read` (as driven by
  `ioutil.ReadAll`), `ReadMessage`, the default ping/pong/close handlers and the part of
  `WriteControl` they use (the close-sent latch). Hand-written; tied to the Go code by `corr c14`.

  The transport is the list of bytes not yet consumed (`input`), followed by EOF. `bufio.Reader`
  segmentation is not modelled (DESIGN §6). `readRemaining`/`readLength` are Go `int64`s: modelled as
  `Int` with every conversion/addition going through `wrap64`. Core Lean only.
-/
import Oryx.Base.Bytes
import Oryx.Gen.Websocket
namespace Oryx.WsRead
open Oryx Oryx.Gen.Websocket

/-- Go `int64(x)` of an unsigned/wider value, and `int64 + int64`: two's complement wrap. -/
def wrap64 (n : Int) : Int := (n + 2 ^ 63) % 2 ^ 64 - 2 ^ 63

/-- Error classes returned by the read methods (texts are not modelled). -/
inductive RErr where
  | proto                              -- handleProtocolError: `errors.New("websocket: …")`, Close 1002 sent first
  | limit                              -- ErrReadLimit
  | close (code : Nat) (text : Bytes)  -- *CloseError built from a received Close frame
  | ueof                               -- errUnexpectedEOF = &CloseError{1006, "unexpected EOF"}
  | eof                                -- io.EOF (io.CopyN while skipping an abandoned frame)
  | internal                           -- "internal error, unexpected text or binary in Reader"
  deriving DecidableEq, Repr

/-- The read fields of `Conn` plus what the read path writes back. -/
structure RState where
  isServer : Bool
  decompress : Bool                    -- newDecompressionReader != nil
  readLimit : Int
  input : Bytes                        -- bytes the transport will still deliver, then EOF
  readFinal : Bool := true
  readRemaining : Int := 0
  readLength : Int := 0
  readErr : Option RErr := none
  readDecompress : Bool := false
  maskKey : Bytes := [0, 0, 0, 0]
  maskPos : Nat := 0
  replies : List (Nat × Bytes) := []   -- control frames written by the handlers: (opcode, payload), oldest first
  closeSent : Bool := false            -- c.writeErr == ErrCloseSent
  deriving DecidableEq, Repr

inductive Out (α : Type) where
  | ok (a : α) (s : RState)
  | fail (e : RErr) (s : RState)
  | panic
  deriving Repr

/-- State + error + panic monad of the read path. -/
def M (α : Type) := RState → Out α

@[inline] def M.bind (x : M α) (f : α → M β) : M β := fun s =>
  match x s with
  | .ok a s' => f a s'
  | .fail e s' => .fail e s'
  | .panic => .panic

instance : Monad M where
  pure a := fun s => .ok a s
  bind := M.bind

def get : M RState := fun s => .ok s s
def modify (f : RState → RState) : M Unit := fun s => .ok () (f s)
def throw (e : RErr) : M α := fun s => .fail e s
def mpanic : M α := fun _ => .panic

/-- `c.read(n)`: `br.Peek(n)`, `io.EOF → errUnexpectedEOF`, `br.Discard(len(p))`. -/
def readN (n : Nat) : M Bytes := fun s =>
  let p := s.input.take n
  if p.length = n then .ok p { s with input := s.input.drop n }
  else .fail .ueof { s with input := [] }

/-- `io.CopyN(ioutil.Discard, c.br, n)`: plain `io.EOF` when the stream ends first. -/
def skipN (n : Nat) : M Unit := fun s =>
  if (s.input.take n).length = n then .ok () { s with input := s.input.drop n }
  else .fail .eof { s with input := [] }

/-- Cyclic XOR with the 4-byte key starting at key index `pos` (`maskBytes`). -/
def maskBytes (key : Bytes) : Nat → Bytes → Bytes
  | _, [] => []
  | pos, b :: bs => (b ^^^ key.getD (pos % 4) 0) :: maskBytes key (pos + 1) bs

/-- `WriteControl` as the read path uses it (payload ≤ 125 always holds there; every caller on the
read path ignores the returned error, the default ping handler by swallowing ErrCloseSent): refused
once a Close has been written (`writeErr` latch), else the frame goes out; a Close sets the latch. -/
def sendCtl (op : Nat) (payload : Bytes) (s : RState) : RState :=
  if s.closeSent then s
  else { s with replies := s.replies ++ [(op, payload)], closeSent := op == CloseMessage }

/-- `handleProtocolError`: Close 1002 (reason text not modelled), then the error. -/
def protoErr : M α := fun s => .fail .proto (sendCtl CloseMessage (be 2 CloseProtocolError) s)

/-- `isValidReceivedCloseCode`. -/
def isValidReceivedCloseCode (code : Nat) : Bool :=
  validReceivedCloseCodes code || (3000 ≤ code && code ≤ 4999)

/-- Go `utf8.ValidString` (stdlib, modelled from its documented behaviour: well-formed UTF-8 per
the Unicode standard, i.e. no overlongs, no surrogates, ≤ U+10FFFF). -/
def utf8ValidF : Nat → Bytes → Bool
  | _, [] => true
  | 0, _ => false
  | n + 1, a :: rest =>
    let x := a.toNat
    if x < 0x80 then utf8ValidF n rest
    else if x < 0xC2 then false
    else if x < 0xE0 then
      match rest with
      | b :: r => (0x80 ≤ b.toNat && b.toNat ≤ 0xBF) && utf8ValidF n r
      | _ => false
    else if x < 0xF0 then
      match rest with
      | b :: c :: r =>
        let lo := if x = 0xE0 then 0xA0 else 0x80
        let hi := if x = 0xED then 0x9F else 0xBF
        (lo ≤ b.toNat && b.toNat ≤ hi) && (0x80 ≤ c.toNat && c.toNat ≤ 0xBF) && utf8ValidF n r
      | _ => false
    else if x < 0xF5 then
      match rest with
      | b :: c :: d :: r =>
        let lo := if x = 0xF0 then 0x90 else 0x80
        let hi := if x = 0xF4 then 0x8F else 0xBF
        (lo ≤ b.toNat && b.toNat ≤ hi) && (0x80 ≤ c.toNat && c.toNat ≤ 0xBF) &&
          (0x80 ≤ d.toNat && d.toNat ≤ 0xBF) && utf8ValidF n r
      | _ => false
    else false

def utf8Valid (bs : Bytes) : Bool := utf8ValidF bs.length bs

/-- The two fixed header bytes decoded with the Go bit operations. -/
structure Hdr where
  final : Bool
  rsv1 : Bool
  rsv23 : Bool            -- p[0] & (rsv2Bit|rsv3Bit) != 0
  frameType : Nat
  mask : Bool
  len7 : Nat
  deriving DecidableEq, Repr

def decodeHdr (b0 b1 : UInt8) : Hdr :=
  { final := b0 &&& UInt8.ofNat finalBit != 0
    rsv1 := b0 &&& UInt8.ofNat rsv1Bit != 0
    rsv23 := b0 &&& UInt8.ofNat (rsv2Bit + rsv3Bit) != 0
    frameType := (b0 &&& 0xf).toNat
    mask := b1 &&& UInt8.ofNat maskBit != 0
    len7 := (b1 &&& 0x7f).toNat }

def isControl (t : Nat) : Bool := t == CloseMessage || t == PingMessage || t == PongMessage
def isData (t : Nat) : Bool := t == TextMessage || t == BinaryMessage

/-! The stages of `advanceFrame`. Each is written as the chain of early returns the Go code has
(`if … { return noFrame, … }` becomes `if … then <failure> else …`). -/

/-- Step 1: skip the remainder of the previous frame. -/
def skipPrev : M Unit := fun s =>
  if s.readRemaining > 0 then skipN s.readRemaining.toNat s else .ok () s

/-- Step 2a: read and decode the two fixed header bytes; `readRemaining = int64(p[1] & 0x7f)`. -/
def readHdr : M Hdr := fun s =>
  match readN 2 s with
  | .panic => .panic
  | .fail e s => .fail e s
  | .ok p s =>
    match p[0]?, p[1]? with
    | some b0, some b1 =>
      let h := decodeHdr b0 b1
      .ok h { s with readRemaining := wrap64 h.len7 }
    | _, _ => .panic       -- Go: index out of range

/-- Step 2b: RSV bits (RSV1 is the per-message-compressed bit only on the first frame of a data
message when deflate is negotiated) and the per-opcode rules. -/
def checkHdr (h : Hdr) : M Unit := fun s =>
  let pmc := s.decompress && h.rsv1 && isData h.frameType
  let s := { s with readDecompress := pmc }     -- `c.readDecompress = false; if … { c.readDecompress = true }`
  if (h.rsv1 && !pmc) || h.rsv23 then protoErr s
  else if isControl h.frameType then
    if h.len7 > maxControlFramePayloadSize then protoErr s
    else if !h.final then protoErr s
    else .ok () s
  else if isData h.frameType then
    if !s.readFinal then protoErr s
    else .ok () { s with readFinal := h.final }
  else if h.frameType == continuationFrame then
    if s.readFinal then protoErr s
    else .ok () { s with readFinal := h.final }
  else protoErr s

/-- Step 3: extended length. `int64(binary.BigEndian.Uint64(p))` wraps; a negative value (top bit
set) is a protocol error (F14 repair). -/
def readLength (h : Hdr) : M Unit := fun s =>
  if h.len7 == 126 then
    match readN 2 s with
    | .panic => .panic
    | .fail e s => .fail e s
    | .ok p s => .ok () { s with readRemaining := wrap64 (ofBE p) }
  else if h.len7 == 127 then
    match readN 8 s with
    | .panic => .panic
    | .fail e s => .fail e s
    | .ok p s =>
      let s := { s with readRemaining := wrap64 (ofBE p) }
      if s.readRemaining < 0 then protoErr s else .ok () s
  else .ok () s

/-- Step 4: mask rule for the role, masking key. -/
def readMask (h : Hdr) : M Unit := fun s =>
  if h.mask != s.isServer then protoErr s
  else if h.mask then
    match readN 4 s with
    | .panic => .panic
    | .fail e s => .fail e s
    | .ok k s => .ok () { s with maskPos := 0, maskKey := k }
  else .ok () s

/-- Step 5 (text, binary, continuation): read-limit accounting; the sum is an `int64` addition. -/
def dataFrame (h : Hdr) : M Nat := fun s =>
  let s := { s with readLength := wrap64 (s.readLength + s.readRemaining) }
  if s.readLength < 0 || (s.readLimit > 0 && s.readLength > s.readLimit) then
    .fail .limit (sendCtl CloseMessage (be 2 CloseMessageTooBig) s)
  else .ok h.frameType s

/-- Step 7 for a Close frame: body checks, default close handler (echo the code), `*CloseError`. -/
def handleCloseFrame (payload : Bytes) : M Nat := fun s =>
  if payload.length == 1 then protoErr s
  else if 2 ≤ payload.length then
    let code := ofBE (payload.take 2)
    if !isValidReceivedCloseCode code then protoErr s
    else
      let text := payload.drop 2
      if !utf8Valid text then protoErr s
      else .fail (.close code text) (sendCtl CloseMessage (be 2 code) s)
  else .fail (.close CloseNoStatusReceived []) (sendCtl CloseMessage [] s)

/-- Step 6: the control frame's payload (`payload, err = c.read(n); c.readRemaining = 0`), unmasked. -/
def readCtlPayload : M Bytes := fun s =>
  if s.readRemaining > 0 then
    match readN s.readRemaining.toNat { s with readRemaining := 0 } with
    | .panic => .panic
    | .fail e s => .fail e s
    | .ok p s => .ok (if s.isServer then maskBytes s.maskKey 0 p else p) s
  else .ok [] s

/-- Steps 6, 7 (close, ping, pong): payload, then the default handler. -/
def controlFrame (h : Hdr) : M Nat := fun s =>
  match readCtlPayload s with
  | .panic => .panic
  | .fail e s => .fail e s
  | .ok payload s =>
    if h.frameType == PongMessage then .ok h.frameType s                        -- default pong handler: nothing
    else if h.frameType == PingMessage then
      .ok h.frameType (sendCtl PongMessage payload s)                           -- default ping handler
    else handleCloseFrame payload s

/-- `advanceFrame`: returns the frame type (`continuationFrame`, Text, Binary, Ping, Pong). -/
def advanceFrame : M Nat := do
  skipPrev
  let h ← readHdr
  checkHdr h
  readLength h
  readMask h
  if h.frameType == continuationFrame || isData h.frameType then dataFrame h
  else controlFrame h

/-- The `for c.readErr == nil` loop of `NextReader`: `advanceFrame` until a Text/Binary frame; an
error is latched in `readErr` (hideTempErr is the identity on the modelled errors). Fuel
exhaustion is a panic (never happens: `nextReaderLoop_ne_panic`). Returns the message type. -/
def nextReaderLoop : Nat → M Nat
  | 0 => fun _ => .panic
  | fuel + 1 => fun s =>
    match s.readErr with
    | some e => .fail e s
    | none =>
      match advanceFrame s with
      | .panic => .panic
      | .fail e s' => .fail e { s' with readErr := some e }
      | .ok ft s' =>
        if ft == TextMessage || ft == BinaryMessage then .ok ft s'
        else nextReaderLoop fuel s'

/-- `NextReader` (the 1000-failed-reads panic counter is not modelled). -/
def nextReader : M Nat := fun s =>
  nextReaderLoop (s.input.length + 1) { s with readLength := 0 }

/-- `ioutil.ReadAll` over `messageReader.Read`, at frame granularity. Returns the bytes read and the
error `ReadAll` stopped on (`none` = the reader's `io.EOF`, i.e. the message is complete). -/
def readAllLoop : Nat → Bytes → M (Bytes × Option RErr)
  | 0, _ => fun _ => .panic
  | fuel + 1, acc => fun s =>
    match s.readErr with
    | some e => .ok (acc, some (if e = .eof then .ueof else e)) s   -- Read returns (0, readErr)
    | none =>
      if s.readRemaining > 0 then
        let n := (s.input.take s.readRemaining.toNat).length     -- min(readRemaining, available)
        if n == 0 then
          -- br.Read returned (0, io.EOF) while readRemaining > 0 → errUnexpectedEOF, latched
          .ok (acc, some .ueof) { s with readErr := some .ueof }
        else
          let chunk := s.input.take n
          let data := if s.isServer then maskBytes s.maskKey s.maskPos chunk else chunk
          readAllLoop fuel (acc ++ data)
            { s with input := s.input.drop n, readRemaining := s.readRemaining - n,
                     maskPos := (s.maskPos + n) % 4 }
      else if s.readFinal then .ok (acc, none) s
      else
        match advanceFrame s with
        | .panic => .panic
        | .fail e s' => readAllLoop fuel acc { s' with readErr := some e }   -- the loop condition sees readErr
        | .ok ft s' =>
          if ft == TextMessage || ft == BinaryMessage then
            readAllLoop fuel acc { s' with readErr := some .internal }
          else readAllLoop fuel acc s'

structure Msg where
  ty : Nat
  compressed : Bool        -- NextReader wrapped the message reader in the flate reader
  data : Bytes             -- bytes of the message reader (before inflate when `compressed`)
  deriving DecidableEq, Repr

/-- `ReadMessage` = `NextReader` + `ioutil.ReadAll`: `(messageType, p, err)`; a `NextReader` error is
the monad's failure. -/
def readMessage : M (Msg × Option RErr) := fun s =>
  match nextReader s with
  | .panic => .panic
  | .fail e s => .fail e s
  | .ok ty s =>
    match readAllLoop (2 * s.input.length + 4) [] s with
    | .panic => .panic
    | .fail e s' => .fail e s'
    | .ok (data, e) s' => .ok ({ ty := ty, compressed := s.readDecompress, data := data }, e) s'

structure Trace where
  msgs : List Msg
  err : RErr
  partialLen : Nat         -- bytes handed out for the message that failed, if any
  final : RState
  deriving Repr

/-- Call `ReadMessage` until it returns an error (it always does on a finite stream). -/
def sessionLoop : Nat → RState → List Msg → Option Trace
  | 0, _, _ => none
  | fuel + 1, s, acc =>
    match readMessage s with
    | .ok (m, none) s' => sessionLoop fuel s' (acc ++ [m])
    | .ok (m, some e) s' => some { msgs := acc, err := e, partialLen := m.data.length, final := s' }
    | .fail e s' => some { msgs := acc, err := e, partialLen := 0, final := s' }
    | .panic => none

def session (s : RState) : Option Trace := sessionLoop (s.input.length + 2) s []

def init (isServer decompress : Bool) (limit : Int) (input : Bytes) : RState :=
  { isServer := isServer, decompress := decompress, readLimit := limit, input := input }

end Oryx.WsRead
