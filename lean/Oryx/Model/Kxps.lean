/-
  Model of /repo/kxps: `sample.sample`, the `doSample` cascade, `sampleAverage`, the
  `started` guard and the kbit/s scaling of the public getters (kxps.go, kbps.go, krps.go).
  Hand-written; window lengths, millisecond divisor, rate scale and kbps factors come from
  `Oryx.Gen.Kxps` (regenerated from the Go AST on every run); tied to the Go code by `corr c20`.

  Time is `Int` nanoseconds since the Unix epoch (the harness builds `time.Unix(0, ns)`, wall clock
  only, so `Time.Add`/`After` are exact and `Time.Sub` saturates to the `int64` range).
  Counters are `Nat` reduced modulo 2^64 where Go's `uint64` arithmetic does.
  A rate is the exact rational `num/den` of the two integers Go converts to `float64`
  (`float64(diff) * 1000 / float64(ms)`): the float rounding is recomputed in the harness from
  these integers and compared bit for bit.
  Core Lean only.
-/
import Oryx.Base.Bytes
import Oryx.Gen.Kxps
namespace Oryx.Kxps
open Oryx Oryx.Res

def two64 : Nat := 18446744073709551616
def two63 : Nat := 9223372036854775808

/-- Go `int64(a - b)` for `a b : uint64`: wrap-around subtraction, reinterpreted as signed. -/
def diff64 (a b : Nat) : Int :=
  let d := (a % two64 + two64 - b % two64) % two64
  if d < two63 then (d : Int) else (d : Int) - (two64 : Int)

/-- Saturation of `time.Time.Sub` to the range of `time.Duration` (`int64` nanoseconds). -/
def clamp64 (x : Int) : Int :=
  if x < -(two63 : Int) then -(two63 : Int) else if x > (two63 : Int) - 1 then (two63 : Int) - 1 else x

/-- A reported rate: `float64(num / rateScale) * rateScale / float64(den)` in Go; `num/den` exactly. -/
structure Rate where
  num : Int
  den : Int
  deriving DecidableEq, Repr

def Rate.zero : Rate := ⟨0, 1⟩

/-- `x * kbpsMul / kbpsDiv` (bytes/s → kbit/s). -/
def Rate.kbps (r : Rate) : Rate := ⟨r.num * Gen.Kxps.kbpsMul, r.den * Gen.Kxps.kbpsDiv⟩

/-- `kxps.sample` (the `interval` field is fixed by `newKxps`; it is passed as a parameter here). -/
structure Sample where
  rate : Rate := Rate.zero
  count : Nat := 0
  create : Int := 0
  last : Int := 0
  deriving DecidableEq, Repr

/-- `(*sample).initialize`. -/
def Sample.initialize (s : Sample) (now : Int) (n : Nat) : Sample :=
  { s with count := n, last := now, create := now }

/-- `int(v.interval / time.Millisecond)`. -/
def windowMs (intervalNs : Nat) : Int := ((intervalNs / Gen.Kxps.msDivisor : Nat) : Int)

/-- `(*sample).sample`: returns the new state and whether the window fired. -/
def Sample.sample (intervalNs : Nat) (s : Sample) (now : Int) (n : Nat) : Sample × Bool :=
  if s.last + (intervalNs : Int) > now then (s, false)
  else
    let diff := diff64 n s.count
    let s' := { s with count := n, last := now }
    if diff ≤ 0 then ({ s' with rate := ⟨0, 1⟩ }, true)
    else ({ s' with rate := ⟨diff * (Gen.Kxps.rateScale : Int), windowMs intervalNs⟩ }, true)

/-- `kxps` (the source is scripted: the current counter value is an argument of each step). -/
structure Meter where
  started : Bool := false
  closed : Bool := false
  r10s : Sample := {}
  r30s : Sample := {}
  r300s : Sample := {}
  average : Nat := 0
  create : Int := 0
  deriving DecidableEq, Repr

def Meter.new : Meter := {}

/-- `Start()` without the sampling goroutine (the hook sets the flag only). -/
def Meter.start (m : Meter) : Meter := { m with started := true }

/-- `Close()`. -/
def Meter.close (m : Meter) : Meter := { m with closed := true, started := false }

/-- `(*kxps).doSample(now)` with `v.source.Count() = count`. -/
def Meter.doSample (m : Meter) (now : Int) (count : Nat) : Meter :=
  if count = 0 then m
  else if m.r10s.count = 0 then
    { m with r10s := m.r10s.initialize now count,
             r30s := m.r30s.initialize now count,
             r300s := m.r300s.initialize now count }
  else
    let (a, f10) := Sample.sample Gen.Kxps.interval_r10s m.r10s now count
    let m := { m with r10s := a }
    if !f10 then m else
    let (b, f30) := Sample.sample Gen.Kxps.interval_r30s m.r30s now count
    let m := { m with r30s := b }
    if !f30 then m else
    let (c, _) := Sample.sample Gen.Kxps.interval_r300s m.r300s now count
    { m with r300s := c }

/-- `(*kxps).sampleAverage(now)` with `v.source.Count() = count` (stable over the call). -/
def Meter.sampleAverage (m : Meter) (now : Int) (count : Nat) : Meter × Rate :=
  if count = 0 then (m, Rate.zero)
  else if m.average = 0 then ({ m with average := count, create := now }, Rate.zero)
  else
    let diff := diff64 count m.average
    if diff ≤ 0 then (m, Rate.zero)
    else
      let duration := Int.tdiv (clamp64 (now - m.create)) (Gen.Kxps.msDivisor : Int)
      if duration ≤ 0 then (m, Rate.zero)
      else (m, ⟨diff * (Gen.Kxps.rateScale : Int), duration⟩)

/-- One observation of a history: `doSample(now)` while the source reads `count`. -/
abbrev Obs := Int × Nat

/-- Feed a history of observations to the sampling step. -/
def Meter.run (m : Meter) : List Obs → Meter
  | [] => m
  | (now, c) :: h => (m.doSample now c).run h

/-- Operations of a meter's life, as the harness scripts them. -/
inductive Op where
  | start
  | close
  | sample (now : Int) (count : Nat)
  | avg (now : Int) (count : Nat)
  deriving DecidableEq, Repr

def Meter.exec1 (m : Meter) : Op → Meter
  | .start => m.start
  | .close => m.close
  | .sample now c => m.doSample now c
  | .avg now c => (m.sampleAverage now c).1

/-- State after a whole scripted life. -/
def Meter.exec (m : Meter) : List Op → Meter
  | [] => m
  | o :: os => (m.exec1 o).exec os

/-! ### public getters (krps: unscaled, kbps: `* 8 / 1000`); all panic before `Start()` -/

def Meter.guard (m : Meter) (r : Rate) : Res Rate := if m.started then ok r else panic

def Meter.rps10s (m : Meter) : Res Rate := m.guard m.r10s.rate
def Meter.rps30s (m : Meter) : Res Rate := m.guard m.r30s.rate
def Meter.rps300s (m : Meter) : Res Rate := m.guard m.r300s.rate
def Meter.kbps10s (m : Meter) : Res Rate := m.guard m.r10s.rate.kbps
def Meter.kbps30s (m : Meter) : Res Rate := m.guard m.r30s.rate.kbps
def Meter.kbps300s (m : Meter) : Res Rate := m.guard m.r300s.rate.kbps

/-- `krps.Average()` at time `now` (the guard is evaluated before the state changes). -/
def Meter.rpsAverage (m : Meter) (now : Int) (count : Nat) : Meter × Res Rate :=
  if m.started then let (m', r) := m.sampleAverage now count; (m', ok r) else (m, panic)

/-- `kbps.Average()` at time `now`. -/
def Meter.kbpsAverage (m : Meter) (now : Int) (count : Nat) : Meter × Res Rate :=
  if m.started then let (m', r) := m.sampleAverage now count; (m', ok r.kbps) else (m, panic)

end Oryx.Kxps
