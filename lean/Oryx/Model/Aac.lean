/-
  Model of /repo/aac/aac.go: ADTS `Encode` / `Decode` (7/9-byte header, 13-bit frame length over
  bytes 3..5), `AudioSpecificConfig` `MarshalBinary` / `UnmarshalBinary` / `validate`, and the enum
  helpers. Hand-written; tied to the Go code by `corr c11`. The ObjectType<->Profile maps, `ToHz` and
  every constant used by `validate` are the GENERATED definitions of `Oryx.Gen.Aac` (regenerated
  from the Go source on each run), so a changed table or constant changes this model.
  Core Lean only.

  Width conventions: struct fields are Go `uint8`s (`UInt8` here, bitwise operators as in Go).
  The two multi-byte scratch values of `Decode` (`sfiv uint16`, `abfv uint32`) and the `uint16`
  frame length are `Nat`s; Go's shift/mask spelling on them is written as `/`, `%`, `*` by powers
  of two (the Go expression is quoted next to each line; the correspondence run ties them).
-/
import Oryx.Base.Bytes
import Oryx.Gen.Aac
namespace Oryx.Aac
open Oryx Oryx.Res

/-- `aac.AudioSpecificConfig` (three `uint8` enums). `default` is Go's zero value. -/
structure Asc where
  object : UInt8
  sampleRate : UInt8
  channels : UInt8
  deriving DecidableEq, Repr, Inhabited

/-! ### enum helpers (generated tables, lifted to `uint8`) -/

/-- `ObjectType.ToProfile`. -/
def toProfile (o : UInt8) : Res UInt8 := do
  let p ← Gen.Aac.ObjectType_ToProfile o.toNat
  pure (UInt8.ofNat p)

/-- `Profile.ToObjectType`. -/
def toObjectType (p : UInt8) : Res UInt8 := do
  let o ← Gen.Aac.Profile_ToObjectType p.toNat
  pure (UInt8.ofNat o)

/-- `SampleRateIndex.ToHz` (Go `int`). -/
def toHz (v : UInt8) : Res Nat := Gen.Aac.ToHz v.toNat

/-! ### AudioSpecificConfig -/

/-- `AudioSpecificConfig.validate`. -/
def validate (a : Asc) : Res Unit :=
  let o := a.object.toNat
  if ¬ (o = Gen.Aac.ObjectTypeMain ∨ o = Gen.Aac.ObjectTypeLC ∨ o = Gen.Aac.ObjectTypeSSR ∨
        o = Gen.Aac.ObjectTypeHE ∨ o = Gen.Aac.ObjectTypeHEv2) then err .generic
  else if a.sampleRate.toNat < Gen.Aac.SampleRateIndex88kHz ∨
          a.sampleRate.toNat > Gen.Aac.SampleRateIndex7kHz then err .generic
  else if a.channels.toNat < Gen.Aac.ChannelMono ∨ a.channels.toNat > Gen.Aac.Channel7_1 then err .generic
  else ok ()

/-- Field extraction of `UnmarshalBinary` from the first two bytes. -/
def ascFields (t0 t1 : UInt8) : Asc :=
  { object := (t0 >>> 3) &&& 0x1f,
    sampleRate := ((t0 <<< 1) &&& (0x0e : UInt8)) ||| ((t1 >>> 7) &&& (0x01 : UInt8)),
    channels := (t1 >>> 3) &&& 0x0f }

/-- `(*AudioSpecificConfig).UnmarshalBinary`: new receiver state and the returned error.
The fields are assigned before `validate`, so a rejected config still overwrites the receiver. -/
def ascUnmarshal (st : Asc) (data : Bytes) : Asc × Res Unit :=
  match data with
  | t0 :: t1 :: _ => let a := ascFields t0 t1; (a, validate a)
  | _ => (st, err .generic)

/-- `(*AudioSpecificConfig).MarshalBinary`. -/
def ascMarshal (a : Asc) : Res Bytes := do
  validate a
  let b0 : UInt8 := ((a.object &&& 0x1f) <<< 3) ||| ((a.sampleRate &&& 0x0e) >>> 1)
  let b1 : UInt8 := ((a.sampleRate &&& 0x01) <<< 7) ||| ((a.channels &&& 0x0f) <<< 3)
  pure [b0, b1]

/-! ### ADTS -/

/-- `(*ADTSImpl).Encode` with the receiver's config `a`. -/
def adtsEncode (a : Asc) (raw : Bytes) : Res Bytes := do
  validate a
  let profile ← toProfile a.object
  -- aacFrameLength := uint16(len(raw) + len(aacFixedHeader))
  let fl := (raw.length + 7) % 65536
  -- p[2] = byte((profile<<6)&0xc0) | byte((v.asc.SampleRate<<2)&0x3c) | byte((v.asc.Channels>>2)&0x01)
  let p2 : UInt8 := ((profile <<< (6 : UInt8)) &&& (0xc0 : UInt8)) ||| ((a.sampleRate <<< (2 : UInt8)) &&& (0x3c : UInt8)) |||
    ((a.channels >>> (2 : UInt8)) &&& (0x01 : UInt8))
  -- p[3] = byte((v.asc.Channels<<6)&0xc0) | byte((aacFrameLength>>11)&0x03)
  let p3 : UInt8 := ((a.channels <<< 6) &&& 0xc0) ||| UInt8.ofNat ((fl / 2048) % 4)
  -- p[4] = byte(aacFrameLength >> 3)
  let p4 := UInt8.ofNat (fl / 8)
  -- p[5] = byte(aacFrameLength<<5) & byte(0xe0)
  let p5 : UInt8 := UInt8.ofNat (fl * 32) &&& 0xe0
  pure ([0xff, 0xf1, p2, p3, p4, p5, 0xfc] ++ raw)

/-- The header fields `Decode` extracts from bytes 1..6. -/
structure Hdr where
  protectionAbsent : UInt8
  profile : UInt8
  sfi : UInt8
  channels : UInt8
  frameLength : Nat
  deriving DecidableEq, Repr

def parseHdr (b1 b2 b3 b4 b5 b6 : UInt8) : Hdr :=
  -- sfiv := uint16(p[2])<<8 | uint16(p[3])
  let sfiv := ofBE [b2, b3]
  -- abfv := uint32(p[4])<<16 | uint32(p[5])<<8 | uint32(p[6])
  let abfv := ofBE [b4, b5, b6]
  { protectionAbsent := (b1 &&& 0x0f) &&& 0x01,
    profile := UInt8.ofNat ((sfiv / 16384) % 4),     -- uint8(sfiv>>14) & 0x03
    sfi := UInt8.ofNat ((sfiv / 1024) % 16),         -- uint8(sfiv>>10) & 0x0f
    channels := UInt8.ofNat ((sfiv / 64) % 8),       -- uint8(sfiv>>6) & 0x07
    -- frameLength := (sfiv << 11) & 0x1800 ; frameLength |= uint16((abfv >> 13) & 0x07ff)
    frameLength := (sfiv % 4) * 2048 + (abfv / 8192) % 2048 }

/-- `(*ADTSImpl).Decode`: new receiver config and `(raw, left)` or the error.
`v.asc` is assigned after the CRC length check and before the payload length check, so those later
errors still overwrite the receiver. `nbRaw := int(frameLength - nbHeader)` is a `uint16`
subtraction (wraps when the frame length is smaller than the header). -/
def adtsDecode (st : Asc) (data : Bytes) : Asc × Res (Bytes × Bytes) :=
  match data with
  | b0 :: b1 :: b2 :: b3 :: b4 :: b5 :: b6 :: p =>
    if p.length = 0 then (st, err .generic)                           -- len(p) <= 7
    else if b0 ≠ 0xff ∨ (b1 &&& 0xf0) ≠ 0xf0 then (st, err .generic)   -- syncword
    else
      let h := parseHdr b1 b2 b3 b4 b5 b6
      if h.protectionAbsent = 0 ∧ p.length ≤ 2 then (st, err .generic)
      else
        let p := if h.protectionAbsent = 0 then p.drop 2 else p       -- crc_check
        let nbHeader := if h.protectionAbsent = 0 then 9 else 7
        match toObjectType h.profile with
        | .panic => (st, .panic)
        | .err k => (st, err k)
        | .ok obj =>
          let st' : Asc := { object := obj, sampleRate := h.sfi, channels := h.channels }
          let nbRaw := (h.frameLength + 65536 - nbHeader) % 65536
          if p.length < nbRaw then (st', err .generic)
          else
            match validate st' with
            | .ok _ => (st', ok (p.take nbRaw, p.drop nbRaw))
            | .err k => (st', err k)
            | .panic => (st', .panic)
  | _ => (st, err .generic)

/-- The caller's loop the `ADTS` interface documents ("when left is not nil, user must decode it
again"): decode frame after frame until nothing is left. `fuel` bounds the iterations. -/
def decodeStream : Nat → Asc → Bytes → Res (List Bytes)
  | _, _, [] => ok []
  | 0, _, _ :: _ => .panic   -- unreachable with fuel ≥ length: every frame consumes ≥ 8 bytes
  | fuel+1, st, data@(_ :: _) =>
    match adtsDecode st data with
    | (st', .ok (raw, left)) => do
      let rs ← decodeStream fuel st' left
      pure (raw :: rs)
    | (_, .err k) => err k
    | (_, .panic) => .panic

end Oryx.Aac
