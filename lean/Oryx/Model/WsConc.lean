/-
  Small-step concurrency model of the websocket write path (conn.go: `Conn.write`, `WriteControl`,
  `writeFatal`, `Close`): the lock `mu` (a 1-slot channel), the `writeErr` latch, the transport
  (open/closed, may fail any write after delivering a prefix), and any number of sender threads, each
  running a program of frame writes (`Job` = the transport writes of one frame: header+payload
  [, `extra`]; `isClose` for a Close frame). One of them is the data writer (its jobs are the frames
  of its messages), the others are control senders; `closeTransport` is the closer.

  The step SHAPES are selected by the four structural facts the translator extracts from the Go
  source (`Oryx.Gen.Websocket.*`): with a fact false the corresponding "bad" step becomes possible
  (a write without the lock, a stale latch check, a release before the close latch, a release
  between the two buffers of a data frame) and the theorems of `Props/C15.lean` no longer apply.

  Ghost state (`done`, `cur`, `okFrames`, `closeDone`) records what the invariant talks about; it
  never influences a step. Core Lean only.
-/
import Oryx.Base.Bytes
import Oryx.Gen.Websocket
namespace Oryx.WsConc
open Oryx

inductive Latch where
  | closeSent      -- ErrCloseSent
  | failed         -- a transport error
  deriving DecidableEq, Repr

/-- One frame write: `Conn.write(frameType, deadline, bufs…)` or the single buffer of `WriteControl`. -/
structure Job where
  bufs : List Bytes
  isClose : Bool
  deriving DecidableEq, Repr

def Job.bytes (j : Job) : Bytes := j.bufs.flatten

inductive PC where
  | idle                 -- between frame writes (not holding `mu`)
  | locked               -- `<-c.mu` done, latch not yet examined
  | writing (k : Nat)    -- latch was nil; `k` buffers handed to the transport so far
  | latched              -- Close frame written, latch set, `mu` still held
  deriving DecidableEq, Repr

structure Thread where
  prog : List Job        -- the thread's program (constant)
  pos : Nat              -- index of the current job
  pc : PC
  okFrames : List Bytes  -- ghost: frames this thread completed, oldest first
  deriving Repr

/-- The structural facts (see the header). -/
structure Facts where
  allConnWritesUnderMu : Bool
  writeErrCheckedUnderMuBeforeWrite : Bool
  closeLatchSetBeforeRelease : Bool
  dataFrameBuffersWrittenInOneLockHold : Bool
  deriving DecidableEq, Repr

def genFacts : Facts :=
  { allConnWritesUnderMu := Gen.Websocket.allConnWritesUnderMu
    writeErrCheckedUnderMuBeforeWrite := Gen.Websocket.writeErrCheckedUnderMuBeforeWrite
    closeLatchSetBeforeRelease := Gen.Websocket.closeLatchSetBeforeRelease
    dataFrameBuffersWrittenInOneLockHold := Gen.Websocket.dataFrameBuffersWrittenInOneLockHold }

def Facts.allTrue : Facts := ⟨true, true, true, true⟩

structure Sys where
  mu : Option Nat                -- holder of the lock
  latch : Option Latch           -- c.writeErr
  wire : Bytes                   -- what the transport accepted
  isOpen : Bool
  threads : Nat → Thread
  done : List (Nat × Bytes)      -- ghost: completed frames (sender, bytes), oldest first
  cur : Bytes                    -- ghost: bytes of the frame in progress / cut by a transport failure
  closeDone : Bool               -- ghost: a Close frame has been completed

def upd (f : Nat → Thread) (t : Nat) (th : Thread) : Nat → Thread := fun i => if i = t then th else f i

def Thread.job (th : Thread) : Option Job := th.prog[th.pos]?

/-- Does `p` start `b`. -/
def IsPrefix (p b : Bytes) : Prop := ∃ r, b = p ++ r

inductive Step (F : Facts) : Sys → Sys → Prop where
  /-- `<-c.mu` -/
  | acquire (s : Sys) (t : Nat) (j : Job) :
      s.mu = none → (s.threads t).pc = .idle → (s.threads t).job = some j →
      Step F s { s with mu := some t, threads := upd s.threads t { s.threads t with pc := .locked } }
  /-- `WriteControl`: the timer fires before the lock is obtained → errWriteTimeout, nothing happens. -/
  | timeout (s : Sys) (t : Nat) (j : Job) :
      (s.threads t).pc = .idle → (s.threads t).job = some j →
      Step F s { s with threads := upd s.threads t { s.threads t with pos := (s.threads t).pos + 1 } }
  /-- latch set: return it, release. -/
  | latchErr (s : Sys) (t : Nat) :
      (s.threads t).pc = .locked → s.latch ≠ none →
      Step F s { s with mu := none,
                        threads := upd s.threads t { s.threads t with pc := .idle, pos := (s.threads t).pos + 1 } }
  /-- latch nil: go on to the transport writes. -/
  | begin (s : Sys) (t : Nat) :
      (s.threads t).pc = .locked → s.latch = none →
      Step F s { s with threads := upd s.threads t { s.threads t with pc := .writing 0 } }
  /-- `c.conn.Write(buf)` succeeds. -/
  | write (s : Sys) (t : Nat) (j : Job) (k : Nat) (b : Bytes) :
      (s.threads t).pc = .writing k → (s.threads t).job = some j → j.bufs[k]? = some b →
      Step F s { s with wire := s.wire ++ b, cur := s.cur ++ b,
                        threads := upd s.threads t { s.threads t with pc := .writing (k + 1) } }
  /-- `c.conn.Write(buf)` fails after the transport took a prefix `p` (possibly empty): `writeFatal`,
      release. -/
  | writeFail (s : Sys) (t : Nat) (j : Job) (k : Nat) (b p : Bytes) :
      (s.threads t).pc = .writing k → (s.threads t).job = some j → j.bufs[k]? = some b → IsPrefix p b →
      Step F s { s with wire := s.wire ++ p, cur := s.cur ++ p, mu := none,
                        latch := match s.latch with | none => some .failed | some l => some l,
                        threads := upd s.threads t { s.threads t with pc := .idle, pos := (s.threads t).pos + 1 } }
  /-- all buffers written, not a Close: release. -/
  | finish (s : Sys) (t : Nat) (j : Job) :
      (s.threads t).pc = .writing j.bufs.length → (s.threads t).job = some j → j.isClose = false →
      Step F s { s with mu := none, done := s.done ++ [(t, s.cur)], cur := [],
                        threads := upd s.threads t { s.threads t with pc := .idle, pos := (s.threads t).pos + 1,
                                                                       okFrames := (s.threads t).okFrames ++ [s.cur] } }
  /-- all buffers written, a Close: `writeFatal(ErrCloseSent)` while still holding `mu`. -/
  | finishClose (s : Sys) (t : Nat) (j : Job) :
      (s.threads t).pc = .writing j.bufs.length → (s.threads t).job = some j → j.isClose = true →
      Step F s { s with latch := match s.latch with | none => some .closeSent | some l => some l,
                        done := s.done ++ [(t, s.cur)], cur := [], closeDone := true,
                        threads := upd s.threads t { s.threads t with pc := .latched, pos := (s.threads t).pos + 1,
                                                                       okFrames := (s.threads t).okFrames ++ [s.cur] } }
  /-- the deferred `c.mu <- true` after the latch. -/
  | release (s : Sys) (t : Nat) :
      (s.threads t).pc = .latched →
      Step F s { s with mu := none, threads := upd s.threads t { s.threads t with pc := .idle } }
  /-- `Conn.Close()` / peer reset: the closer. -/
  | closeTransport (s : Sys) : Step F s { s with isOpen := false }
  -- shapes that exist only when a structural fact is false
  /-- a transport write outside the lock. -/
  | badNoLock (s : Sys) (t : Nat) (j : Job) :
      F.allConnWritesUnderMu = false → (s.threads t).pc = .idle → (s.threads t).job = some j →
      Step F s { s with threads := upd s.threads t { s.threads t with pc := .writing 0 } }
  /-- the latch was examined before the lock was taken (stale). -/
  | badStaleCheck (s : Sys) (t : Nat) :
      F.writeErrCheckedUnderMuBeforeWrite = false → (s.threads t).pc = .locked →
      Step F s { s with threads := upd s.threads t { s.threads t with pc := .writing 0 } }
  /-- the lock is released after a Close frame before the latch is set. -/
  | badLateLatch (s : Sys) (t : Nat) (j : Job) :
      F.closeLatchSetBeforeRelease = false →
      (s.threads t).pc = .writing j.bufs.length → (s.threads t).job = some j → j.isClose = true →
      Step F s { s with mu := none, done := s.done ++ [(t, s.cur)], cur := [], closeDone := true,
                        threads := upd s.threads t { s.threads t with pc := .idle, pos := (s.threads t).pos + 1,
                                                                       okFrames := (s.threads t).okFrames ++ [s.cur] } }
  /-- the lock is released between the buffers of one frame. -/
  | badSplitHold (s : Sys) (t : Nat) (k : Nat) :
      F.dataFrameBuffersWrittenInOneLockHold = false → (s.threads t).pc = .writing k → 0 < k →
      Step F s { s with mu := none }

/-- Initial states: nothing held, nothing sent, every thread idle at the start of its program. -/
def Init (s : Sys) : Prop :=
  s.mu = none ∧ s.latch = none ∧ s.wire = [] ∧ s.done = [] ∧ s.cur = [] ∧ s.closeDone = false ∧
  ∀ t, (s.threads t).pc = .idle ∧ (s.threads t).pos = 0 ∧ (s.threads t).okFrames = []

inductive Reach (F : Facts) : Sys → Sys → Prop where
  | refl (s : Sys) : Reach F s s
  | step {s a b : Sys} : Reach F s a → Step F a b → Reach F s b

/-! ### the observable acceptance test used by `corr c15` (`wsconc.accepts`) -/

/-- A sender as the harness saw it: its frames in program order; `all = true` when every one of them
was reported written (they must all be on the wire), `false` when the sender may have stopped early
(a prefix must be on the wire). -/
structure Sender where
  frames : List Bytes
  all : Bool
  deriving Repr

/-- Is `wire` an interleaving of the senders' frames — whole frames only, each sender's frames in its
own order, complete for the `all` senders, a prefix for the others — optionally followed by a proper,
non-empty prefix of one of `partials` (frames whose write failed under a closed transport)? This is
the shape `Inv.wire`/`Inv.proj`/`Inv.order` give. Backtracking over which sender's frame comes next. -/
def acceptsF : Nat → Bytes → List Sender → List Bytes → Bool
  | 0, _, _, _ => false
  | fuel + 1, wire, senders, partials =>
    (senders.all (fun s => s.frames.isEmpty || !s.all) &&
      (wire.isEmpty || partials.any (fun f => wire.length < f.length && f.take wire.length == wire)))
    || (List.range senders.length).any fun i =>
        match senders[i]? with
        | some ⟨f :: rest, a⟩ =>
          f.length ≤ wire.length && wire.take f.length == f &&
            acceptsF fuel (wire.drop f.length) (senders.set i ⟨rest, a⟩) partials
        | _ => false

def accepts (wire : Bytes) (senders : List Sender) (partials : List Bytes) : Bool :=
  acceptsF ((senders.map (·.frames.length)).sum + 1) wire senders partials

end Oryx.WsConc
