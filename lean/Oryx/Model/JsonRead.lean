/-
  The consumer side of json.go's commentReader: `Read(p)` hands out the tokens the Scanner yields through an internal
  buffer `v.b` (what of the current token did not fit into the caller's slice stays there for the next call).

      func (v *commentReader) Read(p []byte) (n int, err error) {
          for {
              if v.b.Len() > 0 { return v.b.Read(p) }
              for v.s.Scan() { if len(v.s.Bytes()) > 0 { v.b.Write(v.s.Bytes()); break } }
              if err = v.s.Err(); err != nil { return }
              if v.b.Len() == 0 { return 0, io.EOF }
          }
      }

  `tokensEOF` is `scanEOF` keeping the tokens apart (their concatenation is what `scanEOF` emits).
-/
import Oryx.Model.Json
namespace Oryx.Json

/-- the tokens the Scanner yields on `data` followed by EOF, and how the scan ends -/
def tokensEOF (T : Tables) : Nat → Bytes → List Bytes × Status
  | 0, _ => ([], .stuck)
  | n + 1, data =>
    match split T data true with
    | .more => ([], .ok)
    | .fail => ([], .err)
    | .token adv tok =>
      if adv = 0 then ([], .stuck)
      else
        let r := tokensEOF T n (data.drop adv)
        (tok :: r.1, r.2)

/-- the comment reader between two `Read` calls -/
structure Rd where
  buf  : Bytes            -- v.b
  toks : List Bytes       -- what the Scanner will still yield
  st   : Status           -- how the scan ends once the tokens are used up
  deriving Repr, DecidableEq

inductive ROut where
  | data (b : Bytes)      -- (len b, nil)
  | eof                   -- (0, io.EOF)
  | err                   -- (0, the scanner's error)
  deriving Repr, DecidableEq

/-- one `Read(p)` with `len(p) = n` -/
def Rd.read (r : Rd) (n : Nat) : Rd × ROut :=
  if r.buf.isEmpty then
    match r.toks.dropWhile (·.isEmpty) with
    | [] => ({ r with toks := [] }, if r.st = .ok then .eof else .err)
    | t :: ts => ({ r with buf := t.drop n, toks := ts }, .data (t.take n))
  else ({ r with buf := r.buf.drop n }, .data (r.buf.take n))

/-- what the reader still owes its consumer -/
def Rd.remaining (r : Rd) : Bytes := r.buf ++ r.toks.flatten

def ROut.bytes : ROut → Bytes
  | .data b => b
  | _ => []

/-- a sequence of `Read` calls with the given slice lengths; stops at the first EOF / error -/
def Rd.reads : Rd → List Nat → Rd × List ROut
  | r, [] => (r, [])
  | r, n :: ns =>
    match r.read n with
    | (r', .data b) => let rest := r'.reads ns; (rest.1, .data b :: rest.2)
    | (r', o) => (r', [o])

/-- the variant of the seeded change C17-r7b: a `WriteTo` that drains the Scanner and forgets `v.b` -/
def Rd.writeToForgetful (r : Rd) : Bytes := r.toks.flatten

def Rd.ofInput (T : Tables) (input : Bytes) : Rd :=
  let t := tokensEOF T (input.length + 1) input
  { buf := [], toks := t.1, st := t.2 }

end Oryx.Json
