/-
  Model of the RTMP packet layer of /repo/rtmp/rtmp.go: every packet type from `objectCallPacket` to
  `UserControl` (`Size`, `MarshalBinary`, `UnmarshalBinary`, `BetterCid`, `Type`), `DecodeMessage` +
  `parseAMFObject` (dispatch with the outstanding-transaction table), `onPacketWriten`, `WritePacket`,
  `ExpectPacket`, `ExpectMessage`. Hand-written; tied to the Go code by `corr C03`; the message-type /
  command-name switch arms, the `BetterCid()`/`Type()` constants, the command names and the set of
  registering packet types are the generated `Oryx.Gen.Rtmp.*`. Core Lean only.

  The code modelled is the code after `fix: rtmp: a call packet decoded without a command object has
  none` (finding F20): `variantCallPacket.UnmarshalBinary` resets `CommandObject` before looking for one.

  Conventions
  * AMF0 values are `Amf0.Val`; `amf0.Number` is a float64 carried as its IEEE-754 bit pattern
    (`UInt64`); Go's float comparisons (`tid > 0`, `tid != 1.0`, map-key equality) are modelled
    explicitly on the bits (`isPositive`, `numEq`).
  * `objectCallPacket.CommandObject` is a `*amf0.Object` that both constructors allocate
    (`amf0.NewObject()`) and nothing sets to nil: it is a plain `Props` here (a nil pointer makes
    `Size()`/`MarshalBinary` panic in Go: outside the modelled domain). `Args *amf0.Object` and the
    interface-typed `CommandObject`/`Args` of the variant call are `Option`.
  * `uint32`/`uint16`/`uint8`/`int32` fields are `Nat` (the `int32` fields `EventData`/`ExtraData`
    as their `uint32` bit pattern); the marshaller truncates as Go's conversions do.
  * `unmarshal k data` is `New<k>Packet(…).UnmarshalBinary(data)` on the freshly constructed packet,
    which is how `DecodeMessage` uses it.
-/
import Oryx.Model.Amf0
import Oryx.Model.Rtmp
import Oryx.Gen.Rtmp
namespace Oryx.RtmpPkt
open Oryx Oryx.Res Oryx.Amf0 Oryx.Rtmp

/-! ### packets -/

/-- `objectCallPacket`. -/
structure ObjCall where
  name : Bytes            -- CommandName amf0.String
  tid : UInt64            -- TransactionID amf0.Number (bits)
  obj : Props             -- CommandObject *amf0.Object (allocated by the constructors)
  args : Option Props     -- Args *amf0.Object, nil = none
  deriving DecidableEq

/-- `variantCallPacket`. -/
structure VarCall where
  name : Bytes
  tid : UInt64
  obj : Option Val        -- CommandObject amf0.Amf0, nil = none
  deriving DecidableEq

inductive Packet where
  | connect (c : ObjCall)                                   -- ConnectAppPacket
  | connectRes (c : ObjCall)                                -- ConnectAppResPacket
  | createStream (c : VarCall)                              -- CreateStreamPacket
  | createStreamRes (c : VarCall) (streamID : UInt64)       -- CreateStreamResPacket
  | publish (c : VarCall) (streamName streamType : Bytes)   -- PublishPacket
  | play (c : VarCall) (streamName : Bytes)                 -- PlayPacket
  | call (c : VarCall) (args : Option Val)                  -- CallPacket (also closeStream, onStatus, …)
  | setChunkSize (v : Nat)                                  -- SetChunkSize{ChunkSize uint32}
  | winAck (v : Nat)                                        -- WindowAcknowledgementSize{AckSize uint32}
  | setPeerBw (bw : Nat) (limit : Nat)                      -- SetPeerBandwidth{Bandwidth uint32, LimitType uint8}
  | userControl (evt : Nat) (data : Nat) (extra : Nat)      -- UserControl{EventType uint16, EventData, ExtraData int32}
  deriving DecidableEq

inductive Kind where
  | connect | connectRes | createStream | createStreamRes | publish | play | call
  | setChunkSize | winAck | setPeerBw | userControl
  deriving DecidableEq, Repr, Inhabited

def Packet.kind : Packet → Kind
  | .connect _ => .connect
  | .connectRes _ => .connectRes
  | .createStream _ => .createStream
  | .createStreamRes _ _ => .createStreamRes
  | .publish _ _ _ => .publish
  | .play _ _ => .play
  | .call _ _ => .call
  | .setChunkSize _ => .setChunkSize
  | .winAck _ => .winAck
  | .setPeerBw _ _ => .setPeerBw
  | .userControl _ _ _ => .userControl

/-- `Type()` of each packet type (generated constants). -/
def Kind.msgType : Kind → Nat
  | .connect => Gen.Rtmp.ConnectAppPacket_Type
  | .connectRes => Gen.Rtmp.ConnectAppResPacket_Type
  | .createStream => Gen.Rtmp.CreateStreamPacket_Type
  | .createStreamRes => Gen.Rtmp.CreateStreamResPacket_Type
  | .publish => Gen.Rtmp.PublishPacket_Type
  | .play => Gen.Rtmp.PlayPacket_Type
  | .call => Gen.Rtmp.CallPacket_Type
  | .setChunkSize => Gen.Rtmp.SetChunkSize_Type
  | .winAck => Gen.Rtmp.WindowAcknowledgementSize_Type
  | .setPeerBw => Gen.Rtmp.SetPeerBandwidth_Type
  | .userControl => Gen.Rtmp.UserControl_Type

/-- `BetterCid()` of each packet type (generated constants). -/
def Kind.cid : Kind → Nat
  | .connect => Gen.Rtmp.ConnectAppPacket_BetterCid
  | .connectRes => Gen.Rtmp.ConnectAppResPacket_BetterCid
  | .createStream => Gen.Rtmp.CreateStreamPacket_BetterCid
  | .createStreamRes => Gen.Rtmp.CreateStreamResPacket_BetterCid
  | .publish => Gen.Rtmp.PublishPacket_BetterCid
  | .play => Gen.Rtmp.PlayPacket_BetterCid
  | .call => Gen.Rtmp.CallPacket_BetterCid
  | .setChunkSize => Gen.Rtmp.SetChunkSize_BetterCid
  | .winAck => Gen.Rtmp.WindowAcknowledgementSize_BetterCid
  | .setPeerBw => Gen.Rtmp.SetPeerBandwidth_BetterCid
  | .userControl => Gen.Rtmp.UserControl_BetterCid

def Packet.msgType (p : Packet) : Nat := p.kind.msgType
def Packet.cid (p : Packet) : Nat := p.kind.cid

/-! ### Size() -/

def optSize : Option Val → Nat
  | some v => Amf0.size v
  | none => 0

/-- `objectCallPacket.Size`. -/
def ObjCall.size (c : ObjCall) : Nat :=
  Amf0.size (.str c.name) + Amf0.size (.num c.tid) + Amf0.size (.obj c.obj) +
    (match c.args with | some a => Amf0.size (.obj a) | none => 0)

/-- `variantCallPacket.Size`. -/
def VarCall.size (c : VarCall) : Nat :=
  Amf0.size (.str c.name) + Amf0.size (.num c.tid) + optSize c.obj

/-- `Size()` of each packet type. `UserControl.Size` is `Rtmp.userControlSize` (1-byte event data for
`EventTypeFmsEvent0`, 4 more bytes for `EventTypeSetBufferLength`, generated constants). -/
def Packet.size : Packet → Nat
  | .connect c => c.size
  | .connectRes c => c.size
  | .createStream c => c.size
  | .createStreamRes c sid => c.size + Amf0.size (.num sid)
  | .publish c sn st => c.size + Amf0.size (.str sn) + Amf0.size (.str st)
  | .play c sn => c.size + Amf0.size (.str sn)
  | .call c args => c.size + optSize args
  | .setChunkSize _ => 4
  | .winAck _ => 4
  | .setPeerBw _ _ => 4 + 1
  | .userControl evt _ _ => userControlSize evt

/-! ### MarshalBinary -/

def optEnc : Option Val → Bytes
  | some v => encode v
  | none => []

/-- `objectCallPacket.MarshalBinary`. -/
def ObjCall.marshal (c : ObjCall) : Bytes :=
  encode (.str c.name) ++ (encode (.num c.tid) ++ (encode (.obj c.obj) ++
    (match c.args with | some a => encode (.obj a) | none => [])))

/-- `variantCallPacket.MarshalBinary`. -/
def VarCall.marshal (c : VarCall) : Bytes :=
  encode (.str c.name) ++ (encode (.num c.tid) ++ optEnc c.obj)

/-- `MarshalBinary` of each packet type. `UserControl`: `uint16` event type, then `uint8(EventData)` for
`EventTypeFmsEvent0` and `uint32(EventData)` otherwise, then `uint32(ExtraData)` for
`EventTypeSetBufferLength`. -/
def Packet.marshal : Packet → Bytes
  | .connect c => c.marshal
  | .connectRes c => c.marshal
  | .createStream c => c.marshal
  | .createStreamRes c sid => c.marshal ++ encode (.num sid)
  | .publish c sn st => c.marshal ++ (encode (.str sn) ++ encode (.str st))
  | .play c sn => c.marshal ++ encode (.str sn)
  | .call c args => c.marshal ++ optEnc args
  | .setChunkSize v => be 4 v
  | .winAck v => be 4 v
  | .setPeerBw bw l => be 4 bw ++ be 1 l
  | .userControl evt d x =>
    be 2 evt ++ ((if evt = Gen.Rtmp.EventTypeFmsEvent0 then be 1 d else be 4 d) ++
      (if evt = Gen.Rtmp.EventTypeSetBufferLength then be 4 x else []))

/-! ### UnmarshalBinary -/

/-- `amf0.String.UnmarshalBinary(p)`: the decoded string (the caller advances by `Size()`). -/
def strDec (p : Bytes) : Res Bytes :=
  match p with
  | [] => err .generic
  | m :: q =>
    if m ≠ mString then err .generic else do
      let (s, _) ← utf8Dec q
      pure s

/-- `amf0.Number.UnmarshalBinary(p)`. -/
def numDec (p : Bytes) : Res UInt64 :=
  if p.length < 9 then err .generic else
  match p with
  | m :: q => if m ≠ mNumber then err .generic else ok (UInt64.ofNat (ofBE (q.take 8)))
  | [] => err .generic

/-- `(*amf0.Object).UnmarshalBinary(p)` on the empty object the constructor allocated: marker 3, then
`objectBase.unmarshal(p[1:], eof, -1)` (the same loop `Amf0.decodeProps` models; the fuel `p.length`
exceeds the length of `p[1:]`). -/
def objDec (p : Bytes) : Res Props :=
  match p with
  | [] => err .generic
  | m :: q =>
    if m ≠ mObject then err .generic else do
      let (ps, _) ← decodeProps p.length q
      pure ps

/-- `amf0.Discovery(p)` then `UnmarshalBinary(p)` on the value it returned. -/
def anyDec (p : Bytes) : Res Val := do
  let (v, _) ← decode p
  pure v

/-- `binary.BigEndian.Uint32(b)`: panics on fewer than 4 bytes. -/
def u32 (b : Bytes) : Res Nat :=
  if b.length < 4 then .panic else ok (ofBE (b.take 4))

/-- `objectCallPacket.UnmarshalBinary`: each field is decoded from `p` and `p` is advanced by the
field's `Size()`. -/
def ObjCall.unmarshal (data : Bytes) : Res ObjCall := do
  let name ← strDec data
  let p ← sliceFrom data (Amf0.size (.str name))
  let tid ← numDec p
  let p ← sliceFrom p (Amf0.size (.num tid))
  let obj ← objDec p
  let p ← sliceFrom p (Amf0.size (.obj obj))
  if p.length = 0 then pure { name := name, tid := tid, obj := obj, args := none }
  else do
    let a ← objDec p                                      -- v.Args = amf0.NewObject(); v.Args.UnmarshalBinary(p)
    pure { name := name, tid := tid, obj := obj, args := some a }

/-- `variantCallPacket.UnmarshalBinary` (repaired, F20): without bytes after the transaction id the
packet has no command object. -/
def VarCall.unmarshal (data : Bytes) : Res VarCall := do
  let name ← strDec data
  let p ← sliceFrom data (Amf0.size (.str name))
  let tid ← numDec p
  let p ← sliceFrom p (Amf0.size (.num tid))
  if p.length > 0 then do
    let v ← anyDec p
    let _ ← sliceFrom p (Amf0.size v)                          -- p = p[v.CommandObject.Size():]
    pure { name := name, tid := tid, obj := some v }
  else pure { name := name, tid := tid, obj := none }

/-- The bit pattern of `1.0`. -/
def one : UInt64 := 0x3FF0000000000000

/-- `New<k>Packet().UnmarshalBinary(data)`. -/
def unmarshal : Kind → Bytes → Res Packet
  | .connect, data => do
    let c ← ObjCall.unmarshal data
    if c.name ≠ Gen.Rtmp.commandConnectBytes then err .generic
    else if c.tid ≠ one then err .generic                 -- `v.TransactionID != 1.0` (a NaN differs too)
    else pure (.connect c)
  | .connectRes, data => do
    let c ← ObjCall.unmarshal data
    if c.name ≠ Gen.Rtmp.commandResultBytes then err .generic else pure (.connectRes c)
  | .createStream, data => do
    let c ← VarCall.unmarshal data
    pure (.createStream c)
  | .createStreamRes, data => do
    let c ← VarCall.unmarshal data
    let p ← sliceFrom data c.size                         -- p = p[v.variantCallPacket.Size():]
    let sid ← numDec p
    pure (.createStreamRes c sid)
  | .publish, data => do
    let c ← VarCall.unmarshal data
    let p ← sliceFrom data c.size
    let sn ← strDec p
    let p ← sliceFrom p (Amf0.size (.str sn))
    let st ← strDec p
    pure (.publish c sn st)
  | .play, data => do
    let c ← VarCall.unmarshal data
    let p ← sliceFrom data c.size
    let sn ← strDec p
    let _ ← sliceFrom p (Amf0.size (.str sn))
    pure (.play c sn)
  | .call, data => do
    let c ← VarCall.unmarshal data
    let p ← sliceFrom data c.size
    if p.length > 0 then do
      let a ← anyDec p
      pure (.call c (some a))
    else pure (.call c none)
  | .setChunkSize, data =>
    if data.length < 4 then err .generic else do
      let v ← u32 data
      pure (.setChunkSize v)
  | .winAck, data =>
    if data.length < 4 then err .generic else do
      let v ← u32 data
      pure (.winAck v)
  | .setPeerBw, data =>
    if data.length < 5 then err .generic else do
      let v ← u32 data
      let l ← idx data 4
      pure (.setPeerBw v l.toNat)
  | .userControl, data =>
    if data.length < 3 then err .generic else
    let evt := ofBE (data.take 2)
    if data.length < userControlSize evt then err .generic else do
      let d ← (if evt = Gen.Rtmp.EventTypeFmsEvent0 then do
                 let b ← idx data 2
                 pure b.toNat
               else do
                 let q ← sliceFrom data 2
                 u32 q : Res Nat)
      let x ← (if evt = Gen.Rtmp.EventTypeSetBufferLength then do
                 let q ← sliceFrom data 6
                 u32 q
               else pure 0 : Res Nat)
      pure (.userControl evt d x)

/-! ### well-formed packets (the domain of the round-trip property) -/

def optWf : Option Val → Bool
  | some v => wf v
  | none => true

def VarCall.wf (c : VarCall) : Bool := decide (c.name.length ≤ 65535) && optWf c.obj

def ObjCall.wf (c : ObjCall) : Bool :=
  decide (c.name.length ≤ 65535) && wfP c.obj && (match c.args with | some a => wfP a | none => true)

/-- Strings at most 65535 bytes; AMF0 trees well formed (`Amf0.wf`); an optional trailing field only
after the preceding ones (`Args` of a call only with a command object; `StreamID`/`StreamName` follow a
command object); connect carries its name and transaction id 1, a connect response its name;
integers within their Go types; `EventData` of the 1-byte event fits a byte and `ExtraData` is 0 unless
the event carries it (the two facts the wire does not carry). -/
def Packet.wf : Packet → Bool
  | .connect c => c.wf && decide (c.name = Gen.Rtmp.commandConnectBytes) && decide (c.tid = one)
  | .connectRes c => c.wf && decide (c.name = Gen.Rtmp.commandResultBytes)
  | .createStream c => c.wf
  | .createStreamRes c _ => c.wf && c.obj.isSome
  | .publish c sn st => c.wf && c.obj.isSome && decide (sn.length ≤ 65535) && decide (st.length ≤ 65535)
  | .play c sn => c.wf && c.obj.isSome && decide (sn.length ≤ 65535)
  | .call c args => c.wf && optWf args && (c.obj.isSome || args.isNone)
  | .setChunkSize v => decide (v < 4294967296)
  | .winAck v => decide (v < 4294967296)
  | .setPeerBw bw l => decide (bw < 4294967296) && decide (l < 256)
  | .userControl evt d x =>
    decide (evt < 65536) && decide (d < 4294967296) && decide (x < 4294967296) &&
    decide (evt = Gen.Rtmp.EventTypeFmsEvent0 → d < 256) &&
    decide (evt ≠ Gen.Rtmp.EventTypeSetBufferLength → x = 0)

def Packet.WF (p : Packet) : Prop := p.wf = true
instance (p : Packet) : Decidable p.WF := inferInstanceAs (Decidable (p.wf = true))

/-! ### float64 comparisons on the bit pattern -/

/-- IEEE-754 NaN: exponent all ones, fraction non-zero. -/
def isNaN (b : UInt64) : Bool :=
  decide ((b.toNat / 4503599627370496) % 2048 = 2047) && decide (b.toNat % 4503599627370496 ≠ 0)

/-- `+0` or `-0`. -/
def isZero (b : UInt64) : Bool := decide (b.toNat % 9223372036854775808 = 0)

/-- Go `tid > 0`: not a NaN, sign bit clear, not zero (`+Inf` and denormals are positive). -/
def isPositive (b : UInt64) : Bool :=
  !isNaN b && decide (b.toNat < 9223372036854775808) && decide (b.toNat ≠ 0)

/-- Go `a == b` on float64, which is also the key equality of `map[amf0.Number]…`: a NaN equals
nothing (itself included: a NaN key can never be found or deleted), `+0 == -0`, otherwise bit equality. -/
def numEq (a b : UInt64) : Bool :=
  !isNaN a && !isNaN b && (a == b || (isZero a && isZero b))

/-! ### the outstanding-transaction table `input.transactions : map[amf0.Number]amf0.String` -/

abbrev TxnTable := List (UInt64 × Bytes)

/-- `name, ok := transactions[k]`. -/
def TxnTable.find : TxnTable → UInt64 → Option Bytes
  | [], _ => none
  | (k', v) :: rest, k => if numEq k' k then some v else TxnTable.find rest k

/-- `delete(transactions, k)`. -/
def TxnTable.erase (t : TxnTable) (k : UInt64) : TxnTable := t.filter (fun e => !numEq e.1 k)

/-- `transactions[k] = v`: replaces the value of an equal key, else adds the entry (a NaN key is
always added: it equals no existing key). -/
def TxnTable.insert (t : TxnTable) (k : UInt64) (v : Bytes) : TxnTable :=
  if (t.find k).isSome then t.map (fun e => if numEq e.1 k then (e.1, v) else e) else t ++ [(k, v)]

/-- The `(tid, name)` that the type switch of `onPacketWriten` picks up (generated: which packet types
have an arm). For every other packet both stay at their zero values. -/
def registers : Packet → Option (UInt64 × Bytes)
  | .connect c => if Gen.Rtmp.onPacketWritenRegisters_ConnectAppPacket then some (c.tid, c.name) else none
  | .connectRes c => if Gen.Rtmp.onPacketWritenRegisters_ConnectAppResPacket then some (c.tid, c.name) else none
  | .createStream c => if Gen.Rtmp.onPacketWritenRegisters_CreateStreamPacket then some (c.tid, c.name) else none
  | .createStreamRes c _ => if Gen.Rtmp.onPacketWritenRegisters_CreateStreamResPacket then some (c.tid, c.name) else none
  | .publish c _ _ => if Gen.Rtmp.onPacketWritenRegisters_PublishPacket then some (c.tid, c.name) else none
  | .play c _ => if Gen.Rtmp.onPacketWritenRegisters_PlayPacket then some (c.tid, c.name) else none
  | .call c _ => if Gen.Rtmp.onPacketWritenRegisters_CallPacket then some (c.tid, c.name) else none
  | _ => none

/-- `onPacketWriten`: `if tid > 0 && len(name) > 0 { transactions[tid] = name }`. -/
def onPacketWritten (tbl : TxnTable) (p : Packet) : TxnTable :=
  match registers p with
  | some (tid, name) => if isPositive tid ∧ name.length > 0 then tbl.insert tid name else tbl
  | none => tbl

/-! ### DecodeMessage / parseAMFObject -/

/-- The packet type each constructor of the library returns (`none` for the three switch-arm outcomes
that are not constructors). Gated against the generated `ctorGoType` in Props/C03. -/
def ctorKind : Gen.Rtmp.Ctor → Option Kind
  | .NewConnectAppPacket => some .connect
  | .NewConnectAppResPacket => some .connectRes
  | .NewCreateStreamPacket => some .createStream
  | .NewCreateStreamResPacket => some .createStreamRes
  | .NewPublishPacket => some .publish
  | .NewPlayPacket => some .play
  | .NewCallPacket => some .call
  | .NewCloseStreamPacket => some .call
  | .NewSetChunkSize => some .setChunkSize
  | .NewWindowAcknowledgementSize => some .winAck
  | .NewSetPeerBandwidth => some .setPeerBw
  | .NewUserControl => some .userControl
  | .parseAMFObject => none
  | .rejected => none
  | .response => none

/-- A switch arm that constructs a packet (`pkt = NewT()` / `return NewT(), nil`) or rejects
(`return nil, err`). -/
def ctorResult (c : Gen.Rtmp.Ctor) (tbl : TxnTable) : Res Kind × TxnTable :=
  match ctorKind c with
  | some k => (.ok k, tbl)
  | none => (.err .generic, tbl)

/-- `parseAMFObject`: which packet to construct for an AMF command/data payload (generated switch arms).
A response (`_result`/`_error`) is looked up by its transaction id and the entry is deleted — before the
body is decoded, so the entry is gone also when decoding then fails. The table is returned in every case. -/
def parseAMFObject (tbl : TxnTable) (p : Bytes) : Res Kind × TxnTable :=
  match strDec p with
  | .err k => (.err k, tbl)
  | .panic => (.panic, tbl)
  | .ok name =>
    match Gen.Rtmp.parseCommandArm name with
    | .response =>
      match sliceFrom p (Amf0.size (.str name)) >>= numDec with   -- transactionID.UnmarshalBinary(p[commandName.Size():])
      | .err k => (.err k, tbl)
      | .panic => (.panic, tbl)
      | .ok tid =>
        match tbl.find tid with
        | none => (.err .generic, tbl)                        -- "No matched request"
        | some req => ctorResult (Gen.Rtmp.parseResponseArm req) (tbl.erase tid)
    | c => ctorResult c tbl

/-- The tail of `DecodeMessage`: the constructor was chosen (or not), then `pkt.UnmarshalBinary(p)`. -/
def decodeWith (r : Res Kind × TxnTable) (p : Bytes) : Res Packet × TxnTable :=
  match r with
  | (.ok k, tbl') => (unmarshal k p, tbl')
  | (.err e, tbl') => (.err e, tbl')
  | (.panic, tbl') => (.panic, tbl')

/-- `DecodeMessage` with the table state made explicit (generated switch arms). -/
def dispatchSt (tbl : TxnTable) (m : Msg) : Res Packet × TxnTable :=
  if m.payload.length = 0 then (.err .generic, tbl) else
  match (if Gen.Rtmp.decodeMessageSkipsOneByte m.hdr.ty then sliceFrom m.payload 1 else ok m.payload) with
  | .err k => (.err k, tbl)
  | .panic => (.panic, tbl)
  | .ok p =>
    match Gen.Rtmp.decodeMessageArm m.hdr.ty with
    | .parseAMFObject => decodeWith (parseAMFObject tbl p) p
    | c => decodeWith (ctorResult c tbl) p

/-- `DecodeMessage` as a result: the packet and the table afterwards. -/
def dispatch (tbl : TxnTable) (m : Msg) : Res (Packet × TxnTable) :=
  match dispatchSt tbl m with
  | (.ok p, t) => ok (p, t)
  | (.err k, _) => err k
  | (.panic, _) => .panic

/-! ### WritePacket -/

/-- The message `WritePacket(pkt, streamID)` builds (`uint32(streamID)`, timestamp 0). -/
def msgOf (p : Packet) (streamID : Nat) : Msg :=
  { hdr := { cid := p.cid, ty := p.msgType, sid := streamID % 4294967296, ts := 0 }, payload := p.marshal }

/-- `WritePacket`: marshal, register the request (before writing: repair of F4), write the message with
the current output chunk size. Returns the bytes put on the wire and the table. -/
def writePacket (outChunk : Nat) (tbl : TxnTable) (p : Packet) (streamID : Nat) : Res Bytes × TxnTable :=
  (writeMessage outChunk (msgOf p streamID), onPacketWritten tbl p)

/-! ### ExpectPacket / ExpectMessage over the messages `ReadMessage` delivers -/

/-- `ExpectPacket(&pkt)` with `pkt` of the concrete packet type `k` (`reflect` assignability is kind
equality then): read, decode — a decode error ends the wait —, skip what is not a `k`. The messages are
those `ReadMessage` returns, in order; when they run out `ReadMessage` fails with the transport's
end-of-stream error. Returns the message, its packet and the messages not yet read; and the table. -/
def expectPacket (k : Kind) : TxnTable → List Msg → Res (Msg × Packet × List Msg) × TxnTable
  | tbl, [] => (.err .eof, tbl)
  | tbl, m :: ms =>
    match dispatchSt tbl m with
    | (.ok p, tbl') => if p.kind = k then (.ok (m, p, ms), tbl') else expectPacket k tbl' ms
    | (.err e, tbl') => (.err e, tbl')
    | (.panic, tbl') => (.panic, tbl')

/-- `ExpectMessage(types…)`: the first message of one of the types (any message when no type is given);
nothing is decoded. -/
def expectMessage (types : List Nat) : List Msg → Res (Msg × List Msg)
  | [] => .err .eof
  | m :: ms => if types.isEmpty ∨ m.hdr.ty ∈ types then .ok (m, ms) else expectMessage types ms

end Oryx.RtmpPkt
