/-
  Model of /repo/json/json.go (the REPAIRED code: `fix: json: an escaped quote …`, `fix: json: lift the 64KB …`):
  `firstMatch`, `indexEnd`, the bufio.Scanner split function of `NewCommentReader`
  `(data, atEOF) ↦ (advance, token, err)`, and the Scanner loop as "call split on growing prefixes of
  the remaining input", so the emitted bytes are defined for every segmentation of the input into reads.
  Marker tables come from `Oryx.Gen.Json` (regenerated from NewJsonPlusReader's literals on every run).
  Hand-written; tied to the Go code by `corr c17`. Core Lean only.

  Not modelled (stated as Partial in Props/C17): bufio.Scanner's buffer limit (`token too long`; lifted to
  max int by the second fix), `ErrNoProgress` after 100 empty reads, read errors other than EOF.
-/
import Oryx.Base.Bytes
import Oryx.Gen.Json
namespace Oryx.Json
open Oryx

/-- The four parallel tables of `NewCommentReader`. -/
structure Tables where
  starts : List Bytes
  ends : List Bytes
  isComment : List Bool
  required : List Bool

/-- `NewJsonPlusReader`'s tables. -/
def jsonPlus : Tables :=
  ⟨Gen.Json.startMatches, Gen.Json.endMatches, Gen.Json.isComments, Gen.Json.requiredMatches⟩

/-- `bytes.Index(data, flag)`: position of the first occurrence (`none` = -1). -/
def index (f : Bytes) : Bytes → Option Nat
  | [] => if f.isEmpty then some 0 else none
  | b :: t => if f.isPrefixOf (b :: t) then some 0 else (index f t).map (· + 1)

/-- The backslash. -/
def escByte : UInt8 := 92

/-- `indexEnd(data, flag, true)`: left to right; a backslash skips itself and the next byte;
otherwise `bytes.HasPrefix(data[i:], flag)` ends the search. -/
def indexEsc (f : Bytes) : Bytes → Option Nat
  | [] => none
  | b :: t =>
    if b = escByte then
      match t with
      | [] => none
      | _ :: t' => (indexEsc f t').map (· + 2)
    else if f.isPrefixOf (b :: t) then some 0
    else (indexEsc f t).map (· + 1)

/-- `indexEnd(data, flag, escape)`. -/
def indexEnd (data f : Bytes) (escape : Bool) : Option Nat :=
  if escape then indexEsc f data else index f data

/-- The loop of `firstMatch`: `best` is `(pos, index)` (`none` = (-1,-1)); a later flag replaces it
only with a strictly smaller position. -/
def firstMatchAux (data : Bytes) : List Bytes → Nat → Option (Nat × Nat) → Option (Nat × Nat)
  | [], _, best => best
  | f :: fs, i, best =>
    match index f data with
    | none => firstMatchAux data fs (i + 1) best
    | some p =>
      match best with
      | none => firstMatchAux data fs (i + 1) (some (p, i))
      | some (bp, bi) =>
        if bp > p then firstMatchAux data fs (i + 1) (some (p, i))
        else firstMatchAux data fs (i + 1) (some (bp, bi))

/-- `firstMatch(data, flags)`. -/
def firstMatch (data : Bytes) (flags : List Bytes) : Option (Nat × Nat) :=
  firstMatchAux data flags 0 none

/-- Result of the split function: `(0, nil, nil)` = `more`; `(advance, token, nil)`; `(0, nil, commentNotMatch)`. -/
inductive Split where
  | more
  | token (advance : Nat) (tok : Bytes)
  | fail
  deriving DecidableEq, Repr

/-- The split function installed by `NewCommentReader`. Table lookups use `[i]?.getD`: the four tables have
equal length (gated in Props/C17 for the JSON+ tables), so Go's index expressions cannot panic. -/
def split (T : Tables) (data : Bytes) (atEOF : Bool) : Split :=
  if atEOF && data.isEmpty then .more
  else
    match firstMatch data T.starts with
    | none => if atEOF then .token data.length data else .more
    | some (pos, i) =>
      let s := T.starts[i]?.getD []
      let e := T.ends[i]?.getD []
      let isC := T.isComment[i]?.getD false
      let left := data.drop (pos + s.length)
      match indexEnd left e (!isC) with
      | some extra =>
        let adv := pos + s.length + extra + e.length
        .token adv (if isC then data.take pos else data.take adv)
      | none =>
        if atEOF then
          if T.required[i]?.getD false then .fail
          else
            -- extra = len(left) - len(end) (an int, possibly negative); advance = pos + len(start) + extra + len(end)
            let adv := Int.toNat (((pos + s.length : Nat) : Int) + ((left.length : Int) - (e.length : Int)) + (e.length : Int))
            .token adv (if isC then data.take pos else data.take adv)
        else .more

/-- How a read of the whole stream ends. `stuck` stands for the Scanner making no progress (fuel
exhausted / a zero advance); it is shown never to happen. -/
inductive Status where
  | ok | err | stuck
  deriving DecidableEq, Repr

/-- The Scanner after the underlying reader reported EOF: split is called with `atEOF = true` on what is left. -/
def scanEOF (T : Tables) : Nat → Bytes → Bytes × Status
  | 0, _ => ([], .stuck)
  | n + 1, data =>
    match split T data true with
    | .more => ([], .ok)
    | .fail => ([], .err)
    | .token adv tok =>
      if adv = 0 then ([], .stuck)
      else
        let r := scanEOF T n (data.drop adv)
        (tok ++ r.1, r.2)

/-- The Scanner over a segmentation `chunks` of the input into reads; `buf` is the buffered, not yet
consumed data. With buffered data split is tried with `atEOF = false`; when it asks for more, the next
read is appended; after the last read the reader reports EOF. -/
def scan (T : Tables) : Nat → Bytes → List Bytes → Bytes × Status
  | 0, _, _ => ([], .stuck)
  | n + 1, buf, chunks =>
    match (if buf.isEmpty then Split.more else split T buf false) with
    | .token adv tok =>
      if adv = 0 then ([], .stuck)
      else
        let r := scan T n (buf.drop adv) chunks
        (tok ++ r.1, r.2)
    | .fail => ([], .err)
    | .more =>
      match chunks with
      | [] => scanEOF T n buf
      | c :: cs => scan T n (buf ++ c) cs

/-- Everything `ioutil.ReadAll(NewJsonPlusReader(r))` returns when `r` delivers the input in one piece
followed by EOF — bytes and final status. -/
def strip (T : Tables) (input : Bytes) : Bytes × Status := scanEOF T (input.length + 1) input

/-- The same when `r` delivers the input as the given sequence of reads. -/
def stripChunks (T : Tables) (chunks : List Bytes) : Bytes × Status :=
  scan T (2 * chunks.flatten.length + chunks.length + 2) [] chunks

end Oryx.Json
