/-
  Model of /repo/avc/avc.go: NALU header / NALU / AVCDecoderConfigurationRecord / AVCSample
  MarshalBinary and UnmarshalBinary. Hand-written; tied to the Go code by `corr c12`.
  Core Lean only.
-/
import Oryx.Base.Bytes
namespace Oryx.Avc
open Oryx Oryx.Res

/-- `avc.NALU` (header fields are Go `uint8`s, so any byte is representable). -/
structure Nalu where
  refIdc : UInt8
  ty : UInt8
  data : Bytes
  deriving DecidableEq, Repr

/-- `NALUHeader.MarshalBinary`: `byte(NALRefIDC)<<5 | byte(NALUType)`. -/
def headerByte (n : Nalu) : UInt8 := (n.refIdc <<< 5) ||| n.ty

/-- `NALU.MarshalBinary`. -/
def naluMarshal (n : Nalu) : Bytes := headerByte n :: n.data

/-- `NALU.UnmarshalBinary`. -/
def naluUnmarshal : Bytes → Res Nalu
  | [] => err .generic
  | b :: rest => ok { refIdc := (b >>> 5) &&& 0x03, ty := b &&& 0x1f, data := rest }

/-- `AVCDecoderConfigurationRecord`. `profile` is a Go `uint16` (only its low byte is written). -/
structure Record where
  version : UInt8
  profile : Nat
  compat : UInt8
  level : UInt8
  lsm1 : UInt8
  sps : List Nalu
  pps : List Nalu
  deriving DecidableEq, Repr

/-- One parameter set: 16-bit big-endian length (Go truncates `uint16(len(b))`), then the NALU. -/
def setMarshal (n : Nalu) : Bytes := be 2 (naluMarshal n).length ++ naluMarshal n

def setsMarshal : List Nalu → Bytes
  | [] => []
  | n :: ns => setMarshal n ++ setsMarshal ns

/-- `AVCDecoderConfigurationRecord.MarshalBinary` (with the ISO reserved bits). -/
def recordMarshal (r : Record) : Bytes :=
  [r.version, UInt8.ofNat r.profile, r.compat, r.level,
   0xfc ||| (r.lsm1 &&& 0x03),
   0xe0 ||| (UInt8.ofNat r.sps.length &&& 0x1f)]
  ++ setsMarshal r.sps
  ++ [UInt8.ofNat r.pps.length]
  ++ setsMarshal r.pps

/-- The `for i < n` loop reading `n` length-prefixed parameter sets. -/
def readSets : Nat → Bytes → Res (List Nalu × Bytes)
  | 0, b => ok ([], b)
  | n+1, b =>
    if b.length < 2 then err .generic else
    let len := ofBE (b.take 2)
    let b := b.drop 2
    if b.length < len then err .generic else
    do
      let nalu ← naluUnmarshal (b.take len)
      let (ns, rest) ← readSets n (b.drop len)
      pure (nalu :: ns, rest)

/-- `AVCDecoderConfigurationRecord.UnmarshalBinary` on a fresh record. -/
def recordUnmarshal (data : Bytes) : Res Record :=
  match data with
  | b0 :: b1 :: b2 :: b3 :: b4 :: b5 :: b =>
    do
      let (sps, b) ← readSets (b5 &&& 0x1f).toNat b
      match b with
      | [] => err .generic
      | np :: b =>
        let (pps, _) ← readSets np.toNat b
        pure { version := b0, profile := b1.toNat, compat := b2, level := b3,
               lsm1 := b4 &&& 0x03, sps := sps, pps := pps }
  | _ => err .generic

/-- `AVCSample.MarshalBinary` for NAL length size `n` (1..4; `n = lengthSizeMinusOne+1`). -/
def sampleMarshal (n : Nat) : List Nalu → Bytes
  | [] => []
  | x :: xs => be n (naluMarshal x).length ++ naluMarshal x ++ sampleMarshal n xs

/-- `AVCSample.UnmarshalBinary`: `for b := data; len(b) > 0;` (fuel = an upper bound on iterations). -/
def sampleLoop (n : Nat) : Nat → Bytes → Res (List Nalu)
  | _, [] => ok []
  | 0, _ :: _ => .panic  -- unreachable: fuel ≥ length and every iteration consumes ≥ n ≥ 1 bytes
  | fuel+1, b@(_ :: _) =>
    if b.length < n then err .generic else
    let len := ofBE (b.take n)
    let b := b.drop n
    -- `len(b) < int(length)`: a length of 2^63 or more (only an 8-byte length field can hold one) converts to a
    -- negative int, passes the test, and `b[:length]` is out of range
    if 2 ^ 63 ≤ len then .panic else
    if b.length < len then err .generic else
    do
      let nalu ← naluUnmarshal (b.take len)
      let ns ← sampleLoop n fuel (b.drop len)
      pure (nalu :: ns)

def sampleUnmarshal (n : Nat) (data : Bytes) : Res (List Nalu) := sampleLoop n data.length data

end Oryx.Avc
