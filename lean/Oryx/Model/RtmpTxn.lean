/-
  C04 — small-step model of RTMP request/response matching with one writer goroutine
  (`WritePacket`: marshal; register; transport write — in the order the source has NOW, see
  `Gen.Rtmp.txnOrder`) and one reader goroutine (`parseAMFObject`: lookup + delete under one lock).

  What is modelled: the transaction table (`input.transactions`), the order in which requests reach
  the transport, and the processing of each response. The mutex is modelled by the atomicity of the
  `reg` and `resp` steps (justified by the extracted facts `txnRegisterUnderLock`,
  `txnLookupDeleteUnderOneLock`, `txnOtherAccessors = []`). Core Lean only.
-/
import Oryx.Gen.Rtmp
namespace Oryx.RtmpTxn
open Oryx

/-- Writer instructions that touch shared state (marshalling is local and invisible). -/
inductive WInstr where
  | reg (t : Nat)     -- onPacketWriten: transactions[t] = name   (under the lock)
  | write (t : Nat)   -- WriteMessage: the request reaches the transport
  deriving DecidableEq, Repr

/-- The writer's program for a list of requests, in the given order of the two steps. -/
def progOf (o : Gen.Rtmp.TxnOrder) : List Nat → List WInstr
  | [] => []
  | t :: ts =>
    match o with
    | .registerThenWrite => .reg t :: .write t :: progOf o ts
    | .writeThenRegister => .write t :: .reg t :: progOf o ts

structure St where
  prog : List WInstr        -- what the writer goroutine still has to do
  table : List Nat := []    -- outstanding transactions
  wire : List Nat := []     -- requests handed to the transport, in order
  responded : List Nat := [] -- responses the reader has processed (the peer answers each request once)
  matched : List Nat := []  -- responses decoded as the response type of their request
  failed : List Nat := []   -- "No matched request" for a response whose request IS on the wire
  refused : List Nat := []  -- responses nobody is waiting for (untracked calls, stray or repeated _results): refused
  deriving DecidableEq, Repr

/-- Scheduler choices: the writer runs its next instruction, or the reader processes the response to
request `t` — enabled only once `t` was handed to the transport (the property's premise) and not yet
answered. -/
inductive Act where
  | w
  | r (t : Nat)
  /-- a `_result`/`_error` for a transaction id that is not outstanding (the peer answering a call the library
  does not track, a duplicate, garbage): enabled whenever `t` is not in the table; it is refused. -/
  | stray (t : Nat)
  deriving DecidableEq, Repr

def step (s : St) : Act → Option St
  | .w =>
    match s.prog with
    | [] => none
    | .reg t :: p => some { s with prog := p, table := t :: s.table }
    | .write t :: p => some { s with prog := p, wire := s.wire ++ [t] }
  | .r t =>
    if t ∈ s.wire ∧ t ∉ s.responded then
      if t ∈ s.table then
        some { s with table := s.table.erase t, responded := t :: s.responded, matched := t :: s.matched }
      else
        some { s with responded := t :: s.responded, failed := t :: s.failed }
    else none
  | .stray t =>
    if t ∈ s.table then none else some { s with refused := t :: s.refused }

/-- Run a schedule; `none` when it asks for a step that is not enabled. -/
def run (s : St) : List Act → Option St
  | [] => some s
  | a :: as => match step s a with
    | some s' => run s' as
    | none => none

def init (o : Gen.Rtmp.TxnOrder) (reqs : List Nat) : St := { prog := progOf o reqs }

end Oryx.RtmpTxn
