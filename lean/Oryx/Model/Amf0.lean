/-
  Model of /repo/amf0/amf0.go (as repaired by the two `fix: amf0:` commits): the AMF0 value types,
  `Size()`, `MarshalBinary`, `Discovery` + `UnmarshalBinary` (incl. `objectBase.unmarshal`, which
  advances over each child by the child's `Size()`), and the property bag's `Get`/`Set`.
  Hand-written; tied to the Go code by `corr C05` / `corr C06`; the marker constants and the
  `Discovery` dispatch table are the generated `Oryx.Gen.Amf0.*`. Core Lean only.

  Public API (reused by the RTMP packet layer):
    `Val` (num bits | bool | str | null | undef | obj ps | ecma count ps | strict ps | eof), `Props` (nil | cons k v tl)
    — a mutual pair with `DecidableEq`; `Props.length/keys/toList/ofList/append/get/has/replace/set`;
    `size : Val → Nat`, `sizeP : Props → Nat`, `utf8Size`;
    `encode : Val → Bytes`, `encodeP : Props → Bytes`, `utf8Enc`;
    `decodeVal : (fuel : Nat) → Bytes → Res (Val × Bytes)` (value, bytes after it; `fuel > length` suffices),
    `decodeProps`, `decodeElems`, `utf8Dec`, `decode : Bytes → Res (Val × Bytes)` (= `decodeVal (len+1)`);
    `wf : Val → Bool`, `wfP`, `Val.WF`, `Props.WF` (decidable);
    `walk`, `costV`, `cost`, `nest` (instrumented cost with the `Size()` re-walk charged).
  Key facts (Oryx/Proofs/Amf0*.lean): `encode_length`, `decode_good` (ok ⇒ size ≤ len ∧ rest = drop size),
  `rtVal` (round trip at any sufficient fuel), `decode_ne_panic`, `decode_wf`.
-/
import Oryx.Base.Bytes
import Oryx.Gen.Amf0
namespace Oryx.Amf0
open Oryx Oryx.Res

/-! ### values -/

mutual
/-- An AMF0 value as the library holds it. Numbers are carried as their IEEE-754 bit pattern
(`math.Float64bits` / `Float64frombits` are bit-transparent: trusted). Strings are Go strings,
i.e. arbitrary byte sequences. `count` is the Go `uint32` field of the ECMA array. The strict array's
`count` field is not part of the value: since the repair of F6 nothing reads it (the marshaller writes
the number of properties, the decoder overwrites it), so it is unobservable through the API. -/
inductive Val where
  | num (bits : UInt64)
  | bool (b : Bool)
  | str (s : Bytes)
  | null
  | undef
  | obj (ps : Props)
  | ecma (count : Nat) (ps : Props)
  | strict (ps : Props)
  /-- `objectEOF`: what `Discovery` returns for marker 9. Reachable through the API
  (`Discovery([]byte{9})`), never produced by decoding. Not well-formed as a value. -/
  | eof
/-- The ordered property list `objectBase.properties` (keys/values in wire order). -/
inductive Props where
  | nil
  | cons (k : Bytes) (v : Val) (tl : Props)
end

mutual
def Val.beq : Val → Val → Bool
  | .num a, .num b => a == b
  | .bool a, .bool b => a == b
  | .str a, .str b => a == b
  | .null, .null => true
  | .undef, .undef => true
  | .obj a, .obj b => Props.beq a b
  | .ecma c a, .ecma d b => c == d && Props.beq a b
  | .strict a, .strict b => Props.beq a b
  | .eof, .eof => true
  | _, _ => false
def Props.beq : Props → Props → Bool
  | .nil, .nil => true
  | .cons k v t, .cons k' v' t' => k == k' && Val.beq v v' && Props.beq t t'
  | _, _ => false
end

mutual
theorem Val.beq_iff : ∀ (a b : Val), Val.beq a b = true ↔ a = b
  | .num a, b => by cases b <;> simp [Val.beq]
  | .bool a, b => by cases b <;> simp [Val.beq]
  | .str a, b => by cases b <;> simp [Val.beq]
  | .null, b => by cases b <;> simp [Val.beq]
  | .undef, b => by cases b <;> simp [Val.beq]
  | .obj a, b => by cases b <;> simp [Val.beq, Props.beq_iff a]
  | .ecma c a, b => by cases b <;> simp [Val.beq, Props.beq_iff a]
  | .strict a, b => by cases b <;> simp [Val.beq, Props.beq_iff a]
  | .eof, b => by cases b <;> simp [Val.beq]
theorem Props.beq_iff : ∀ (a b : Props), Props.beq a b = true ↔ a = b
  | .nil, b => by cases b <;> simp [Props.beq]
  | .cons k v t, b => by cases b <;> simp [Props.beq, Val.beq_iff v, Props.beq_iff t, and_assoc]
end

instance : DecidableEq Val := fun a b =>
  if h : Val.beq a b = true then isTrue ((Val.beq_iff a b).1 h)
  else isFalse (fun e => h ((Val.beq_iff a b).2 e))
instance : DecidableEq Props := fun a b =>
  if h : Props.beq a b = true then isTrue ((Props.beq_iff a b).1 h)
  else isFalse (fun e => h ((Props.beq_iff a b).2 e))

namespace Props

def length : Props → Nat
  | .nil => 0
  | .cons _ _ tl => tl.length + 1

def toList : Props → List (Bytes × Val)
  | .nil => []
  | .cons k v tl => (k, v) :: tl.toList

def ofList : List (Bytes × Val) → Props
  | [] => .nil
  | (k, v) :: tl => .cons k v (ofList tl)

def keys : Props → List Bytes
  | .nil => []
  | .cons k _ tl => k :: tl.keys

def append : Props → Props → Props
  | .nil, q => q
  | .cons k v tl, q => .cons k v (tl.append q)

/-- `objectBase.Get`: the first property with that key (Go returns `nil` when absent). -/
def get (key : Bytes) : Props → Option Val
  | .nil => none
  | .cons k v tl => if k = key then some v else tl.get key

def has (key : Bytes) : Props → Bool
  | .nil => false
  | .cons k _ tl => k == key || tl.has key

/-- The replacing loop of `objectBase.Set`: every property with that key is replaced (no `break`). -/
def replace (key : Bytes) (v : Val) : Props → Props
  | .nil => .nil
  | .cons k w tl => if k = key then .cons k v (tl.replace key v) else .cons k w (tl.replace key v)

/-- `objectBase.Set`: replace the existing key, else append at the end. -/
def set (key : Bytes) (v : Val) (ps : Props) : Props :=
  if ps.has key then ps.replace key v else ps.append (.cons key v .nil)

end Props

/-! ### markers (generated constants as bytes) -/

abbrev mNumber : UInt8 := UInt8.ofNat Gen.Amf0.markerNumber
abbrev mBoolean : UInt8 := UInt8.ofNat Gen.Amf0.markerBoolean
abbrev mString : UInt8 := UInt8.ofNat Gen.Amf0.markerString
abbrev mObject : UInt8 := UInt8.ofNat Gen.Amf0.markerObject
abbrev mNull : UInt8 := UInt8.ofNat Gen.Amf0.markerNull
abbrev mUndefined : UInt8 := UInt8.ofNat Gen.Amf0.markerUndefined
abbrev mEcmaArray : UInt8 := UInt8.ofNat Gen.Amf0.markerEcmaArray
abbrev mObjectEnd : UInt8 := UInt8.ofNat Gen.Amf0.markerObjectEnd
abbrev mStrictArray : UInt8 := UInt8.ofNat Gen.Amf0.markerStrictArray

/-! ### Size() -/

/-- `amf0UTF8.Size`. -/
def utf8Size (s : Bytes) : Nat := 2 + s.length

mutual
/-- `Amf0.Size()` of each type. -/
def size : Val → Nat
  | .num _ => 1 + 8
  | .bool _ => 2
  | .str s => 1 + utf8Size s
  | .null => 1
  | .undef => 1
  | .obj ps => 1 + 3 + sizeP ps
  | .ecma _ ps => 1 + 4 + 3 + sizeP ps
  | .strict ps => 1 + 4 + sizeP ps
  | .eof => 3
/-- `objectBase.Size()`: sum over the current properties. -/
def sizeP : Props → Nat
  | .nil => 0
  | .cons k v tl => utf8Size k + size v + sizeP tl
end

/-! ### MarshalBinary -/

/-- `amf0UTF8.MarshalBinary`: `uint16(len)` big-endian (truncating, as Go does) in a zeroed buffer of
`Size()` bytes; the string is copied in only `if size > 0`, so a string whose length is a non-zero
multiple of 65536 is written as zeros (outside the well-formed domain, modelled as the code behaves). -/
def utf8Enc (s : Bytes) : Bytes :=
  be 2 s.length ++ (if s.length % 65536 = 0 then List.replicate s.length 0 else s)

/-- `objectEOF.MarshalBinary`. -/
def eofBytes : Bytes := [0, 0, 9]

mutual
/-- `MarshalBinary` of each type. The strict array writes the number of its properties as count
(repair of F6). -/
def encode : Val → Bytes
  | .num b => mNumber :: be 8 b.toNat
  | .bool b => [mBoolean, if b then 1 else 0]
  | .str s => mString :: utf8Enc s
  | .null => [mNull]
  | .undef => [mUndefined]
  | .obj ps => mObject :: (encodeP ps ++ eofBytes)
  | .ecma c ps => mEcmaArray :: (be 4 c ++ (encodeP ps ++ eofBytes))
  | .strict ps => mStrictArray :: (be 4 ps.length ++ encodeP ps)
  | .eof => eofBytes
/-- `objectBase.marshal`: key, value, key, value … in list order. -/
def encodeP : Props → Bytes
  | .nil => []
  | .cons k v tl => utf8Enc k ++ (encode v ++ encodeP tl)
end

/-! ### Discovery + UnmarshalBinary -/

/-- `amf0UTF8.UnmarshalBinary(p)` followed by the caller's `p = p[u.Size():]`
(never out of range: the length was checked). Returns the string and the bytes after it. -/
def utf8Dec (p : Bytes) : Res (Bytes × Bytes) :=
  if p.length < 2 then err .generic else
  if (p.drop 2).length < ofBE (p.take 2) then err .generic else
  ok ((p.drop 2).take (ofBE (p.take 2)), (p.drop 2).drop (ofBE (p.take 2)))

/-- `Number.UnmarshalBinary`. -/
def numberDec (p : Bytes) : Res (Val × Bytes) :=
  if p.length < 9 then err .generic else
  match p with
  | m :: q => if m ≠ mNumber then err .generic else ok (.num (UInt64.ofNat (ofBE (q.take 8))), q.drop 8)
  | [] => err .generic

/-- `Boolean.UnmarshalBinary`: any non-zero byte is `true`. -/
def booleanDec (p : Bytes) : Res (Val × Bytes) :=
  match p with
  | m :: b :: q => if m ≠ mBoolean then err .generic else ok (.bool (b != 0), q)
  | _ => err .generic

/-- `String.UnmarshalBinary`. -/
def stringDec (p : Bytes) : Res (Val × Bytes) :=
  match p with
  | m :: q =>
    if m ≠ mString then err .generic else do
      let (s, r) ← utf8Dec q
      pure (.str s, r)
  | [] => err .generic

/-- `singleMarkerObject.UnmarshalBinary` for target marker `t`. -/
def singleDec (t : UInt8) (v : Val) (p : Bytes) : Res (Val × Bytes) :=
  match p with
  | m :: q => if m ≠ t then err .generic else ok (v, q)
  | [] => err .generic

/-- `objectEOF.UnmarshalBinary`. -/
def eofDec (p : Bytes) : Res (Val × Bytes) :=
  match p with
  | a :: b :: c :: q => if a ≠ 0 ∨ b ≠ 0 ∨ c ≠ 9 then err .generic else ok (.eof, q)
  | _ => err .generic

mutual
/-- `Discovery(p)` then `UnmarshalBinary(p)` on the fresh value. Returns the value and the bytes
after the last byte its decoder looked at as part of the value (the decoder's own cursor).
`fuel` bounds the recursion depth + loop iterations; `fuel > p.length` is always enough
(`decodeVal_ne_panic`). -/
def decodeVal : Nat → Bytes → Res (Val × Bytes)
  | 0, _ => .panic
  | fuel+1, p =>
    match p with
    | [] => err .generic                                   -- Discovery: require 1 byte
    | m :: q =>
      match Gen.Amf0.discovery m.toNat with
      | .NewNumber => numberDec p
      | .NewBoolean => booleanDec p
      | .NewString => stringDec p
      | .NewNull => singleDec mNull .null p
      | .NewUndefined => singleDec mUndefined .undef p
      | .objectEOF => eofDec p
      | .rejected => err .generic
      | .NewObject =>
        if m ≠ mObject then err .generic else do
          let (ps, r) ← decodeProps fuel q
          pure (.obj ps, r)
      | .NewEcmaArray =>
        if p.length < 5 then err .generic else
        if m ≠ mEcmaArray then err .generic else do
          let (ps, r) ← decodeProps fuel (q.drop 4)
          pure (.ecma (ofBE (q.take 4)) ps, r)
      | .NewStrictArray =>
        if p.length < 5 then err .generic else
        if m ≠ mStrictArray then err .generic else
        if ofBE (q.take 4) = 0 then ok (.strict .nil, q.drop 4) else do  -- `int(v.count) <= 0` (64-bit)
          let (ps, r) ← decodeElems fuel (ofBE (q.take 4)) (q.drop 4)
          pure (.strict ps, r)
/-- `objectBase.unmarshal(p, eof = true, -1)`: properties until the empty key followed by marker 9.
Each property is appended (repair of F5), and the cursor advances by the child's `Size()`. -/
def decodeProps : Nat → Bytes → Res (Props × Bytes)
  | 0, _ => .panic
  | fuel+1, p => do
    let (k, p1) ← utf8Dec p                                 -- readOne: prop name
    match p1 with
    | [] => err .generic                                    -- Discovery: require 1 byte
    | m :: q =>                                             -- (a rejected marker fails in decodeVal below)
      if k.length = 0 ∧ Gen.Amf0.discovery m.toNat = .objectEOF then ok (.nil, q)  -- `p = p[1:]`
      else do
        let (a, _) ← decodeVal fuel p1                      -- pushOne: a.UnmarshalBinary(p)
        let p2 ← sliceFrom p1 (size a)                      -- p = p[a.Size():]
        let (tl, r) ← decodeProps fuel p2
        pure (.cons k a tl, r)
/-- `objectBase.unmarshal(p, eof = false, maxElems = n)`: `for len(v.properties) < maxElems`. -/
def decodeElems : Nat → Nat → Bytes → Res (Props × Bytes)
  | _, 0, p => ok (.nil, p)
  | 0, _+1, _ => .panic
  | fuel+1, n+1, p => do
    let (k, p1) ← utf8Dec p
    let (a, _) ← decodeVal fuel p1                          -- Discovery + UnmarshalBinary
    let p2 ← sliceFrom p1 (size a)
    let (tl, r) ← decodeElems fuel n p2
    pure (.cons k a tl, r)
end

/-- Top level: `Discovery(bs)` + `UnmarshalBinary(bs)`; the second component is what follows the
bytes the decoder consumed. -/
def decode (bs : Bytes) : Res (Val × Bytes) := decodeVal (bs.length + 1) bs

/-! ### well-formedness (the domain of the round-trip property) -/

mutual
/-- Strings and keys at most 65535 bytes, ECMA count a `uint32`, number of strict-array elements a
`uint32`, no `objectEOF` used as a value. Repeated keys are allowed (the repaired decoder keeps them). -/
def wf : Val → Bool
  | .num _ => true
  | .bool _ => true
  | .str s => decide (s.length ≤ 65535)
  | .null => true
  | .undef => true
  | .obj ps => wfP ps
  | .ecma c ps => decide (c < 4294967296) && wfP ps
  | .strict ps => decide (ps.length < 4294967296) && wfP ps
  | .eof => false
def wfP : Props → Bool
  | .nil => true
  | .cons k v tl => decide (k.length ≤ 65535) && wf v && wfP tl
end

def Val.WF (v : Val) : Prop := wf v = true
def Props.WF (ps : Props) : Prop := wfP ps = true
instance (v : Val) : Decidable v.WF := inferInstanceAs (Decidable (wf v = true))
instance (ps : Props) : Decidable ps.WF := inferInstanceAs (Decidable (wfP ps = true))

/-! ### instrumented cost (C07 / K3) -/

mutual
/-- Number of values `Size()` visits (one unit per value and per property key). -/
def walk : Val → Nat
  | .obj ps => 1 + walkP ps
  | .ecma _ ps => 1 + walkP ps
  | .strict ps => 1 + walkP ps
  | _ => 1
def walkP : Props → Nat
  | .nil => 0
  | .cons _ v tl => 1 + walk v + walkP tl
end

mutual
/-- Cost of decoding the encoding of `v`: one unit per value and key read, plus — charged explicitly —
what the container decoder pays to advance past each child after decoding it: the `a.Size()` re-walk
of the whole child (`walk a`) when `rewalk`, one unit when the child reports what it consumed. -/
def costV (rewalk : Bool) : Val → Nat
  | .obj ps => 1 + costP rewalk ps
  | .ecma _ ps => 1 + costP rewalk ps
  | .strict ps => 1 + costP rewalk ps
  | _ => 1
def costP (rewalk : Bool) : Props → Nat
  | .nil => 0
  | .cons _ v tl => 1 + costV rewalk v + (if rewalk then walk v else 1) + costP rewalk tl
end

/-- Cost of a successful decode of `bs` (0 when it does not decode), for the decoder the source has
NOW (`Gen.Amf0.childAdvanceIsConstant` is regenerated from amf0.go on every run). -/
def cost (bs : Bytes) : Nat :=
  match decode bs with
  | .ok (v, _) => costV (!Gen.Amf0.childAdvanceIsConstant) v
  | _ => 0

/-- `d` objects nested in each other under key `k` around `v` (the adversarial family of K3). -/
def nest (k : Bytes) : Nat → Val → Val
  | 0, v => v
  | d+1, v => .obj (.cons k (nest k d v) .nil)

end Oryx.Amf0
