/-
  The loop of `Protocol.ExpectMessage` / `Protocol.ExpectPacket` (rtmp.go) over the results of the successive
  `ReadMessage` calls: messages that are not the awaited kind are skipped, the first awaited one is returned, and a
  failed read ends the loop.

      for {
          if m, err = v.ReadMessage(); err != nil { return nil, oe.WithMessage(err, "read message") }
          … if it is what the caller waits for { return } …
      }

  `firstErrorReturns` is the fact read from the source (Gen.Rtmp.expectReturnsFirstError); with `false` the model is the
  variant that carries on reading after a failed read (a "retry").
-/
namespace Oryx.Model.Expect

inductive Out (ε α : Type) where
  | got (m : α)
  | failed (e : ε)          -- the caller sees `WithMessage(e, "read message")`: one layer, cause kept (Model.IoFault)
  | pending                 -- the results listed so far do not end the loop
  deriving Repr, DecidableEq

def expectLoop {ε α : Type} (firstErrorReturns : Bool) (want : α → Bool) : List (Except ε α) → Out ε α
  | [] => .pending
  | .ok m :: rest => if want m then .got m else expectLoop firstErrorReturns want rest
  | .error e :: rest => if firstErrorReturns then .failed e else expectLoop firstErrorReturns want rest

end Oryx.Model.Expect
