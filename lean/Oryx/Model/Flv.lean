/-
  Model of /repo/flv/flv.go (the REPAIRED tree: fixes F7, F8, F9, F20 are in; see known_findings.d/C09.json,
  C10.json): muxer `WriteHeader/WriteTag`, demuxer `ReadHeader/ReadTagHeader/ReadTag`, audio/video
  packager `Encode/Decode`, rate/enum helpers (from the generated `Oryx.Gen.Flv` tables).
  Hand-written; tied to the Go code by `corr C09` / `corr C10`. Core Lean only.

  Integers: Go `uint8` fields are `UInt8`; Go `uint16/uint32/int32` fields are `Nat` holding the unsigned
  bit pattern (`VideoFrame.CTS` is an `int32` in Go: the model carries `uint32(CTS)`; only the low 24 bits
  ever reach the wire). `be n v` reduces `v` mod `256^n` exactly as Go's `byte(v>>k)` spelling does.
-/
import Oryx.Base.Bytes
import Oryx.Gen.Flv
namespace Oryx.Flv
open Oryx Oryx.Res

/-! ## Stream reader (for C09, reused by C08)

The demuxer pulls from an `io.Reader` ONLY through `io.CopyN(&bytes.Buffer{}, r, n)`. A reader is modelled
by the byte string `s` it will still deliver before `io.EOF`; a read returns the value and the remaining
stream. `io.CopyN` returns `io.EOF` whenever the source ends before `n` bytes — also after a partial
copy (`written < n && err == nil → err = EOF`); it never returns `io.ErrUnexpectedEOF` (that is
`io.ReadFull`'s rule, which flv.go does not use). `CopyN(…, 0)` succeeds on any reader, also at EOF.
On failure the error is returned and the stream position is irrelevant (no state survives in `Res`). -/

/-- `io.CopyN(buf, r, n)` with `s` = what `r` still delivers: `(buf.Bytes(), rest)` or `io.EOF`. -/
def copyN (n : Nat) (s : Bytes) : Res (Bytes × Bytes) :=
  if n ≤ s.length then ok (s.take n, s.drop n) else err .eof

/-! ## Muxer -/

/-- One FLV tag as the muxer takes it / the demuxer returns it. `ts` is a Go `uint32`. -/
structure Tag where
  ty : UInt8
  ts : Nat
  body : Bytes
  deriving DecidableEq, Repr

/-- `flags` of `WriteHeader`: `|= 0x01` if video, `|= 0x04` if audio. -/
def flagsByte (hasVideo hasAudio : Bool) : UInt8 :=
  (if hasVideo then 0x01 else 0x00) ||| (if hasAudio then 0x04 else 0x00)

/-- `muxer.WriteHeader(hasVideo, hasAudio)`: the 13 bytes written. -/
def writeHeader (hasVideo hasAudio : Bool) : Bytes :=
  [0x46, 0x4c, 0x56, 0x01, flagsByte hasVideo hasAudio, 0x00, 0x00, 0x00, 0x09, 0x00, 0x00, 0x00, 0x00]

/-- The 11-byte tag header of `WriteTag` (`tagSize = uint32(len(tag))`). -/
def tagHeader (ty : UInt8) (ts size : Nat) : Bytes :=
  ty :: (be 3 size ++ be 3 ts ++ [UInt8.ofNat (ts / 16777216), 0x00, 0x00, 0x00])

/-- `pts := uint32(11 + len(tag))`, big-endian. -/
def prevTagSize (size : Nat) : Bytes := be 4 (11 + size)

/-- `muxer.WriteTag(tagType, timestamp, tag)`: three `io.Copy`s — header, body, previous tag size. -/
def writeTag (t : Tag) : Bytes :=
  tagHeader t.ty t.ts t.body.length ++ t.body ++ prevTagSize t.body.length

def writeTags : List Tag → Bytes
  | [] => []
  | t :: ts => writeTag t ++ writeTags ts

/-- A whole file: `WriteHeader` then `WriteTag` for each tag. -/
def mux (hasVideo hasAudio : Bool) (tags : List Tag) : Bytes :=
  writeHeader hasVideo hasAudio ++ writeTags tags

/-! ## Demuxer -/

structure Header where
  version : UInt8
  hasVideo : Bool
  hasAudio : Bool
  deriving DecidableEq, Repr

/-- `demuxer.ReadHeader()`. `p[:3]`, `p[3]`, `p[4]` are Go slice/index expressions (checked). -/
def readHeader (s : Bytes) : Res (Header × Bytes) := do
  let (p, rest) ← copyN 13 s
  let sig ← sliceTo p 3
  if sig ≠ [0x46, 0x4c, 0x56] then err .generic else do
  let v ← idx p 3
  let f ← idx p 4
  pure ({ version := v, hasVideo := (f &&& 0x01) == 0x01, hasAudio := ((f >>> 2) &&& 0x01) == 0x01 }, rest)

structure TagHeader where
  ty : UInt8
  size : Nat
  ts : Nat
  deriving DecidableEq, Repr

/-- `demuxer.ReadTagHeader()`: `p[0]`, 24-bit size `p[1..3]`, timestamp `p[7]<<24 | p[4]<<16 | p[5]<<8 | p[6]`.
The buffer has exactly 11 bytes after a successful `CopyN`; a shorter one would be an index panic. -/
def readTagHeader (s : Bytes) : Res (TagHeader × Bytes) := do
  let (p, rest) ← copyN 11 s
  match p with
  | [b0, b1, b2, b3, b4, b5, b6, b7, _, _, _] =>
    pure ({ ty := b0, size := ofBE [b1, b2, b3], ts := b7.toNat * 16777216 + ofBE [b4, b5, b6] }, rest)
  | _ => .panic

/-- `demuxer.ReadTag(tagSize)`: `CopyN(int64(tagSize)+4)` then `p[0 : len(p)-4]` (panics if `len(p) < 4`). -/
def readTag (size : Nat) (s : Bytes) : Res (Bytes × Bytes) := do
  let (p, rest) ← copyN (size + 4) s
  if p.length < 4 then .panic else pure (p.take (p.length - 4), rest)

/-- The caller's step: `ReadTagHeader` then `ReadTag(tagSize)`. -/
def readTagFull (s : Bytes) : Res (Tag × Bytes) := do
  let (h, s) ← readTagHeader s
  let (b, s) ← readTag h.size s
  pure ({ ty := h.ty, ts := h.ts, body := b }, s)

/-- How a demux loop stops: with an error class, or a panic (also: fuel exhausted — proved impossible). -/
inductive Stop where
  | err (k : EK)
  | panic
  deriving DecidableEq, Repr

/-- `for { ReadTagHeader; ReadTag }` until the first error. Each successful step consumes ≥ 15 bytes. -/
def readTags : Nat → Bytes → List Tag × Stop
  | 0, _ => ([], .panic)
  | fuel+1, s =>
    match readTagFull s with
    | .ok (t, rest) => let r := readTags fuel rest; (t :: r.1, r.2)
    | .err k => ([], .err k)
    | .panic => ([], .panic)

/-- A whole file: `ReadHeader`, then tags until the reader ends. -/
def demux (s : Bytes) : Res (Header × List Tag × Stop) := do
  let (h, rest) ← readHeader s
  pure (h, readTags (rest.length + 1) rest)

/-! ## Audio tag bodies (E.4.2) -/

/-- `flv.AudioFrame`. All enum fields are Go `uint8`s; `level` is a `uint16`. -/
structure AudioFrame where
  fmt : UInt8      -- SoundFormat
  rate : UInt8     -- SoundRate
  size : UInt8     -- SoundSize
  chan : UInt8     -- SoundType
  trait : UInt8    -- Trait
  level : Nat      -- AudioLevel
  raw : Bytes
  deriving DecidableEq, Repr

def codecAAC : UInt8 := UInt8.ofNat Gen.Flv.AudioCodecAAC
def codecOpus : UInt8 := UInt8.ofNat Gen.Flv.AudioCodecOpus
def traitOpusSR : UInt8 := UInt8.ofNat Gen.Flv.AudioFrameTraitOpusSamplingRate
def traitOpusAL : UInt8 := UInt8.ofNat Gen.Flv.AudioFrameTraitOpusAudioLevel

/-- First byte of `audioPackager.Encode` (rate masked to 2 bits — fix F8 — and cleared for Opus). -/
def audioFirstByte (f : AudioFrame) : UInt8 :=
  let b := (f.fmt <<< 4) ||| ((f.rate &&& 0x03) <<< 2) ||| (f.size <<< 1) ||| f.chan
  if f.fmt = codecOpus then b &&& 0xf3 else b

/-- `audioPackager.Encode`. -/
def encodeAudio (f : AudioFrame) : Bytes :=
  if f.fmt = codecAAC then audioFirstByte f :: f.trait :: f.raw
  else if f.fmt = codecOpus then
    audioFirstByte f :: f.trait ::
      ((if f.trait &&& traitOpusSR = traitOpusSR then [f.rate] else []) ++
       (if f.trait &&& traitOpusAL = traitOpusAL then be 2 f.level else []) ++ f.raw)
  else audioFirstByte f :: f.raw

/-- `audioPackager.Decode` (with the per-codec minimum lengths of fix F9). -/
def decodeAudio (tag : Bytes) : Res AudioFrame :=
  match tag with
  | [] => err .generic
  | t :: rest =>
    let fmt := (t >>> 4) &&& 0x0f
    let rate := (t >>> 2) &&& 0x03
    let size := (t >>> 1) &&& 0x01
    let chan := t &&& 0x01
    if fmt = codecAAC then
      match rest with
      | [] => err .generic
      | tr :: raw => ok { fmt, rate, size, chan, trait := tr, level := 0, raw }
    else if fmt = codecOpus then
      match rest with
      | [] => err .generic
      | tr :: p => do
        let (rate, p) ←
          if tr &&& traitOpusSR = traitOpusSR then
            match p with
            | [] => err .generic
            | r :: p => ok (r, p)
          else ok (rate, p)
        let (level, p) ←
          if tr &&& traitOpusAL = traitOpusAL then
            match p with
            | a :: b :: p => ok (ofBE [a, b], p)
            | _ => err .generic
          else ok (0, p)
        pure { fmt, rate, size, chan, trait := tr, level, raw := p }
    else ok { fmt, rate, size, chan, trait := 0, level := 0, raw := rest }

/-! ## Video tag bodies (E.4.3) -/

/-- `flv.VideoFrame`; `cts` = `uint32(CTS)`. -/
structure VideoFrame where
  codec : UInt8      -- CodecID
  frameType : UInt8  -- FrameType
  trait : UInt8      -- Trait
  cts : Nat          -- CTS
  raw : Bytes
  deriving DecidableEq, Repr

def codecAVC : UInt8 := UInt8.ofNat Gen.Flv.VideoCodecAVC
def codecHEVC : UInt8 := UInt8.ofNat Gen.Flv.VideoCodecHEVC

def hasCts (codec : UInt8) : Bool := codec = codecAVC || codec = codecHEVC

def videoFirstByte (f : VideoFrame) : UInt8 := (f.frameType <<< 4) ||| f.codec

/-- `videoPackager.Encode`. -/
def encodeVideo (f : VideoFrame) : Bytes :=
  if hasCts f.codec then videoFirstByte f :: f.trait :: (be 3 f.cts ++ f.raw)
  else videoFirstByte f :: f.raw

/-- `videoPackager.Decode` (with the per-codec minimum length of fix F9). -/
def decodeVideo (tag : Bytes) : Res VideoFrame :=
  match tag with
  | [] => err .generic
  | b :: rest =>
    let frameType := (b >>> 4) &&& 0x0f
    let codec := b &&& 0x0f
    if hasCts codec then
      match rest with
      | tr :: c0 :: c1 :: c2 :: raw => ok { codec, frameType, trait := tr, cts := ofBE [c0, c1, c2], raw }
      | _ => err .generic
    else ok { codec, frameType, trait := 0, cts := 0, raw := rest }

/-! ## Enum helpers over the whole `uint8` range (generated tables; Go indexing semantics) -/

def toHz (v : UInt8) : Res Nat := Gen.Flv.AudioSamplingRate_ToHz v.toNat
def opusToHz (v : UInt8) : Res Nat := Gen.Flv.AudioSamplingRate_OpusToHz v.toNat

/-- `(*AudioSamplingRate).From(aac.SampleRateIndex)`, `(*AudioSamplingRate).OpusFrom(…)`,
`(*AudioChannels).From(aac.Channels)`: the value stored in the receiver (generated switch tables). -/
def samplingRateFrom (a : UInt8) : Nat := Gen.Flv.AudioSamplingRate_From a.toNat
def samplingRateOpusFrom (a : UInt8) : Nat := Gen.Flv.AudioSamplingRate_OpusFrom a.toNat
def channelsFrom (a : UInt8) : Nat := Gen.Flv.AudioChannels_From a.toNat

/-- `AudioFrameTrait.String()` — listed in `Gen.Flv.untranslatedHelpers`, so modelled by hand:
flag names joined by `|` for `1 < v < 0xff`, else the AAC names. -/
def audioTraitString (v : UInt8) : String :=
  if 1 < v.toNat ∧ v.toNat < Gen.Flv.AudioFrameTraitForbidden then
    "|".intercalate
      ((if v &&& 0x02 = 0x02 then ["RAW"] else []) ++
       (if v &&& 0x04 = 0x04 then ["SR"] else []) ++
       (if v &&& 0x08 = 0x08 then ["AL"] else []))
  else if v.toNat = Gen.Flv.AudioFrameTraitSequenceHeader then "SequenceHeader"
  else if v.toNat = Gen.Flv.AudioFrameTraitRaw then "Raw"
  else "Forbidden"

/-- The translated `String()` helpers by name (for the oracle and the totality theorem). -/
def enumString (name : String) (v : Nat) : Option (Res String) :=
  match name with
  | "TagType" => some (Gen.Flv.TagType_String v)
  | "AudioChannels" => some (Gen.Flv.AudioChannels_String v)
  | "AudioSampleBits" => some (Gen.Flv.AudioSampleBits_String v)
  | "AudioSamplingRate" => some (Gen.Flv.AudioSamplingRate_String v)
  | "AudioCodec" => some (Gen.Flv.AudioCodec_String v)
  | "VideoFrameType" => some (Gen.Flv.VideoFrameType_String v)
  | "VideoCodec" => some (Gen.Flv.VideoCodec_String v)
  | "VideoFrameTrait" => some (Gen.Flv.VideoFrameTrait_String v)
  | _ => none

end Oryx.Flv
