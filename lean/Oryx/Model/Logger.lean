/-
  Model of /repo/logger (go17.go, logger.go).

  1. The connection-id allocator (`WithContext`, `AliasContext`) as a small-step system over any
     number of goroutines: the discipline is `Gen.Logger.cidAlloc` (extracted from the Go AST);
     `plainRMW` = two steps (load; store+1 and hand out), `atomicAdd`/`mutexed` = one step.
  2. The text of one log line for every level × context kind × Println/Printf, over `List Char`;
     the prefix formats are the string literals extracted from `format`, `formatf`, `contextFormat`,
     `contextFormatf`. Each log call appends one whole line (assumption about `log.Logger`: one
     `Write` per `Output` under its mutex).
  Hand-written; tied to the Go code by `corr c18`. Core Lean only.
-/
import Oryx.Base.Bytes
import Oryx.Gen.Logger
namespace Oryx.Logger
open Oryx
open Oryx.Gen.Logger (CidAlloc)

/-! ## 1. id allocator -/

/-- One atomic action of a goroutine `g`. -/
inductive Op where
  | add (g : Nat)                 -- atomicAdd / mutexed: increment and hand out, one step
  | load (g : Nat)                -- plainRMW: read the counter into a register
  | store (g : Nat)               -- plainRMW: write register+1 back and hand that value out
  | alias (g : Nat) (src : Nat)   -- AliasContext(parent, source) where source carries id `src`
  deriving DecidableEq, Repr

structure St where
  counter : Nat
  /-- plainRMW registers: (goroutine, loaded value), not yet stored -/
  regs : List (Nat × Nat)
  /-- ids handed out by `WithContext`, newest first: (goroutine, id) -/
  issued : List (Nat × Nat)
  /-- contexts made by `AliasContext` from a source with an id: (source id, alias id) -/
  aliases : List (Nat × Nat)
  deriving DecidableEq, Repr

def St.init : St := { counter := Gen.Logger.cidInitial, regs := [], issued := [], aliases := [] }

def St.ids (s : St) : List Nat := s.issued.map Prod.snd

/-- `AliasContext`: the id the returned context carries when the source has one. -/
def aliasCid (src : Nat) : Nat := if Gen.Logger.aliasCopiesSourceCid then src else 0

/-- One step; `none` = the action is not enabled under this discipline / in this state. -/
def exec (m : CidAlloc) (s : St) : Op → Option St
  | .add g =>
    if m = .plainRMW then none
    else some { s with counter := s.counter + 1, issued := (g, s.counter + 1) :: s.issued }
  | .load g =>
    if m ≠ .plainRMW then none
    else if (s.regs.lookup g).isSome then none
    else some { s with regs := (g, s.counter) :: s.regs }
  | .store g =>
    if m ≠ .plainRMW then none
    else match s.regs.lookup g with
      | none => none
      | some v => some { s with counter := v + 1, regs := s.regs.filter (fun p => p.1 ≠ g),
                                 issued := (g, v + 1) :: s.issued }
  | .alias _ src =>
    -- the source context must exist: its id was handed out before
    if src ∈ s.ids then some { s with aliases := (src, aliasCid src) :: s.aliases } else none

/-- Run a schedule (an interleaving: a list of actions of arbitrary goroutines). -/
def run (m : CidAlloc) : St → List Op → Option St
  | s, [] => some s
  | s, op :: ops => match exec m s op with
    | none => none
    | some s' => run m s' ops

/-- Reachable states: any number of goroutines, any interleaving. -/
inductive Reach (m : CidAlloc) : St → Prop where
  | init : Reach m St.init
  | step {s s' : St} (op : Op) : Reach m s → exec m s op = some s' → Reach m s'

/-! ## 2. log lines -/

inductive Level where
  | info | trace | warn | error
  deriving DecidableEq, Repr

def Level.label : Level → List Char
  | .info => Gen.Logger.logInfoLabel.toList
  | .trace => Gen.Logger.logTraceLabel.toList
  | .warn => Gen.Logger.logWarnLabel.toList
  | .error => Gen.Logger.logErrorLabel.toList

def Level.var : Level → String
  | .info => "Info" | .trace => "Trace" | .warn => "Warn" | .error => "Error"

/-- After `Switch(w)`: does this level write to `w`? (extracted: Info goes to a discard writer) -/
def Level.toWriter (l : Level) : Bool :=
  match Gen.Logger.switchLevels.find? (fun e => e.1 = l.var) with
  | some (_, _, b, _) => b
  | none => false

/-- The kinds of context a log call can be given. -/
inductive Ctx where
  | nil                       -- nil
  | obj (cid : Int)           -- an application object with `Cid() int`
  | ctxWith (cid : Int)       -- a context.Context carrying an id (WithContext / AliasContext)
  | ctxWithout                -- a context.Context without an id
  | other                     -- any other non-nil value
  deriving DecidableEq, Repr

/-- Println with its operands already formatted by `fmt` (`%v` of each), or Printf with the user part
of the format already expanded. -/
inductive Call where
  | println (ops : List (List Char))
  | printf (msg : List Char)
  deriving DecidableEq, Repr

def digitChar (d : Nat) : Char := Char.ofNat (48 + d)

def decF : Nat → Nat → List Char
  | 0, _ => []
  | f+1, n => if n < 10 then [digitChar n] else decF f (n / 10) ++ [digitChar (n % 10)]

/-- Decimal text of a natural number (`%v` of a non-negative int). -/
def dec (n : Nat) : List Char := decF (n + 1) n

/-- Decimal text of an int. -/
def decInt (i : Int) : List Char := if i < 0 then '-' :: dec i.natAbs else dec i.natAbs

/-- Replace the successive `%v` of a format by the arguments (all the library's prefixes need). -/
def fillV : List Char → List (List Char) → List Char
  | '%' :: 'v' :: r, a :: as => a ++ fillV r as
  | c :: r, as => c :: fillV r as
  | [], _ => []

def lit (l : List String) (i : Nat) : List Char := (l.getD i "").toList

/-- What `format`/`formatf` receive from `contextFormat`/`contextFormatf` for a value that is not a
context.Context: the value itself — or, if the source shadows `ctx` with the failed type assertion's
result (extracted fact false; the code as it was, F20), a nil context. -/
def Ctx.seen (c : Ctx) : Ctx :=
  if Gen.Logger.fallbackPassesOriginalCtx then c
  else match c with
    | .obj _ => .nil
    | .other => .nil
    | c => c

/-- The first operand `contextFormat`/`format` prepend for Println (`none`: nothing prepended). -/
def printlnPrefixSeen (pid : Nat) : Ctx → Option (List Char)
  | .nil => some (fillV (lit Gen.Logger.formatLits 0) [dec pid])
  | .obj c => some (fillV (lit Gen.Logger.formatLits 1) [dec pid, decInt c])
  | .ctxWith c => some (fillV (lit Gen.Logger.contextFormatLits 0) [dec pid, decInt c])
  | .ctxWithout => none
  | .other => none

def printlnPrefix (pid : Nat) (c : Ctx) : Option (List Char) := printlnPrefixSeen pid c.seen

/-- What `contextFormatf`/`formatf` put in front of the user's format for Printf, expanded. -/
def printfPrefixSeen (pid : Nat) : Ctx → List Char
  | .nil => fillV (lit Gen.Logger.formatfLits 0) [dec pid]
  | .obj c => fillV (lit Gen.Logger.formatfLits 1) [dec pid, decInt c]
  | .ctxWith c => fillV (lit Gen.Logger.contextFormatfLits 0) [dec pid, decInt c]
  | .ctxWithout => []
  | .other => []

def printfPrefix (pid : Nat) (c : Ctx) : List Char := printfPrefixSeen pid c.seen

/-- `fmt.Sprintln`: operands separated by single spaces, then a newline. -/
def sprintln : List (List Char) → List Char
  | [] => ['\n']
  | [a] => a ++ ['\n']
  | a :: as => a ++ ' ' :: sprintln as

/-- `log.Logger.Output`: appends a newline unless the text already ends with one. -/
def ensureNl (s : List Char) : List Char :=
  if s.getLast? = some '\n' then s else s ++ ['\n']

/-- The text handed to `log.Logger.Output` by the call. -/
def body (pid : Nat) (ctx : Ctx) : Call → List Char
  | .println ops =>
    match printlnPrefix pid ctx with
    | some p => sprintln (p :: ops)
    | none => sprintln ops
  | .printf msg => ensureNl (printfPrefix pid ctx ++ msg)

/-- One log line: label, `YYYY/MM/DD hh:mm:ss.uuuuuu` (flags date|time|microseconds), space, body. -/
def formatLine (lvl : Level) (ts : List Char) (pid : Nat) (ctx : Ctx) (call : Call) : List Char :=
  lvl.label ++ ts ++ ' ' :: body pid ctx call

/-- What a log call appends to the writer installed by `Switch`. -/
def emit (lvl : Level) (ts : List Char) (pid : Nat) (ctx : Ctx) (call : Call) : List Char :=
  if lvl.toWriter then formatLine lvl ts pid ctx call else []

/-! ### the reader's side: parse the prefix of a line -/

inductive Prefix where
  | none                      -- no `[pid]`
  | pid (pid : Nat)           -- `[pid]` only
  | pidCid (pid : Nat) (cid : Int)
  | bad
  deriving DecidableEq, Repr

def undec (cs : List Char) : Nat := cs.foldl (fun a c => a * 10 + (c.toNat - 48)) 0

def undecInt : List Char → Int
  | '-' :: r => - (undec r : Int)
  | cs => (undec cs : Int)

def stripPrefix : List Char → List Char → Option (List Char)
  | [], r => some r
  | _ :: _, [] => none
  | a :: as, b :: bs => if a = b then stripPrefix as bs else none

def stripLabel (line : List Char) : Option (List Char) :=
  [Level.info, .trace, .warn, .error].findSome? (fun l => stripPrefix l.label line)

def notClose (c : Char) : Bool := c ≠ ']'

/-- `[pid][cid]`, `[pid]` or nothing at the start of the body. -/
def parseBody : List Char → Prefix
  | '[' :: r =>
    match r.dropWhile notClose with
    | ']' :: '[' :: r2 =>
      (match r2.dropWhile notClose with
       | ']' :: _ => .pidCid (undec (r.takeWhile notClose)) (undecInt (r2.takeWhile notClose))
       | _ => .bad)
    | ']' :: _ => .pid (undec (r.takeWhile notClose))
    | _ => .bad
  | _ => .none

/-- Parse a whole line: label, 26 timestamp characters, a space, then the prefix. -/
def parseCid (line : List Char) : Prefix :=
  match stripLabel line with
  | none => .bad
  | some r => match r.drop 26 with
    | ' ' :: b => parseBody b
    | _ => .bad

/-- The prefix the property prescribes for a context kind (what the code does for the two kinds the
property does not name — a context without id, any other value — is "no prefix"). -/
def Ctx.expected (pid : Nat) : Ctx → Prefix
  | .nil => .pid pid
  | .obj c => .pidCid pid c
  | .ctxWith c => .pidCid pid c
  | .ctxWithout => .none
  | .other => .none

end Oryx.Logger
