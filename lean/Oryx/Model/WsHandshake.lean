/-
  Model of the websocket opening handshake (C13, last clause): `websocket/util.go` (octet classes of RFC 2616,
  `skipSpace`, `nextToken`, `nextTokenOrQuoted`, `tokenListContainsValue`, `parseExtensions`), the decision logic and
  the 101 response of `Upgrader.Upgrade` (`server.go`), the request of `Dialer.Dial` and its check of the response
  (`client.go`).

  Go strings are byte strings here (`Bytes`). What is NOT modelled and enters as a parameter:
  * `computeAcceptKey` (SHA-1 + base64) is the parameter `acceptKey : Bytes → Bytes` (the driver compares the library's
    value with an independent computation, RFC 6455 section 1.3 sample included);
  * net/http: the request/response travel as header lists; `transport` is what `net/textproto` does to the names
    (canonical spelling, values of equal names collected in wire order);
  * `CheckOrigin` is the Boolean `originOk`; Hijack succeeds.
  Core Lean only (linked into the oracle executable `oracle_hs`).
-/
import Oryx.Base.Bytes
import Oryx.Gen.Websocket
namespace Oryx.Model.WsHs
open Oryx

/-- An ASCII literal as bytes (reduces under `decide`). -/
def ascii (s : String) : Bytes := s.toList.map (fun c => c.toNat.toUInt8)

/-! ## util.go: octet classes -/

def isSpaceOctet (c : UInt8) : Bool := c == 32 || c == 9 || c == 13 || c == 10
def isCtl (c : UInt8) : Bool := c ≤ 31 || c == 127
/-- `" \t\"(),/:;<=>?@[]\\{}"` -/
def isSeparator (c : UInt8) : Bool :=
  [32, 9, 34, 40, 41, 44, 47, 58, 59, 60, 61, 62, 63, 64, 91, 93, 92, 123, 125].contains c
def isTokenOctet (c : UInt8) : Bool := c ≤ 127 && !isCtl c && !isSeparator c
/-- `octetTypes[c]` with the package's two flag constants. -/
def octetType (c : UInt8) : Nat :=
  (if isTokenOctet c then Gen.Websocket.isTokenOctet else 0) + (if isSpaceOctet c then Gen.Websocket.isSpaceOctet else 0)

def skipSpace (s : Bytes) : Bytes := s.dropWhile isSpaceOctet
def nextToken (s : Bytes) : Bytes × Bytes := (s.takeWhile isTokenOctet, s.dropWhile isTokenOctet)

/-- The escape loop of `nextTokenOrQuoted` (entered at the first backslash). -/
def quotedEsc (acc : Bytes) (esc : Bool) : Bytes → Bytes × Bytes
  | [] => ([], [])
  | b :: t =>
    if esc then quotedEsc (acc ++ [b]) false t
    else if b == 92 then quotedEsc acc true t
    else if b == 34 then (acc, t)
    else quotedEsc (acc ++ [b]) false t

/-- The scan of a quoted string before any backslash was seen. -/
def quotedPlain (acc : Bytes) : Bytes → Bytes × Bytes
  | [] => ([], [])
  | b :: t =>
    if b == 34 then (acc, t)
    else if b == 92 then quotedEsc acc true t
    else quotedPlain (acc ++ [b]) t

def nextTokenOrQuoted (s : Bytes) : Bytes × Bytes :=
  match s with
  | 34 :: t => quotedPlain [] t
  | _ => nextToken s

/-! ## strings.EqualFold against an ASCII constant

`strings.EqualFold(s, c)` for a constant `c` of ASCII bytes: ASCII letters fold by case; the only non-ASCII runes
whose simple-fold orbit contains an ASCII letter are U+212A KELVIN SIGN (`E2 84 AA`, folds to k) and U+017F LATIN SMALL
LETTER LONG S (`C5 BF`, folds to s); every other non-ASCII rune, and every invalid byte (decoded as U+FFFD), differs
from every ASCII byte. -/

def lower (b : UInt8) : UInt8 := if 65 ≤ b ∧ b ≤ 90 then b + 32 else b

def eqFoldC : Bytes → Bytes → Bool
  | [], [] => true
  | [], _ :: _ => false
  | _ :: _, [] => false
  | a :: s, c :: t =>
    if a < 128 then lower a == lower c && eqFoldC s t
    else
      match a, s with
      | 0xE2, 0x84 :: 0xAA :: s' => lower c == 107 && eqFoldC s' t
      | 0xC5, 0xBF :: s' => lower c == 115 && eqFoldC s' t
      | _, _ => false

/-! ## tokenListContainsValue -/

/-- One header value; `none` = fuel exhausted (never, `tlcv_fuel`). -/
def tlcvOneF : Nat → Bytes → Bytes → Option Bool
  | 0, _, _ => none
  | fuel + 1, s, value =>
    let (t, s) := nextToken (skipSpace s)
    if t.isEmpty then some false
    else
      let s := skipSpace s
      match s with
      | [] => some (eqFoldC t value)
      | c :: rest =>
        if c != 44 then some false
        else if eqFoldC t value then some true
        else tlcvOneF fuel rest value

def tlcvOne (s value : Bytes) : Bool := (tlcvOneF (s.length + 1) s value).getD false

/-- `tokenListContainsValue(header, name, value)` over `header[name] = vals`. -/
def tokenListContainsValue (vals : List Bytes) (value : Bytes) : Bool := vals.any (fun s => tlcvOne s value)

/-! ## parseExtensions -/

/-- One extension: the Go `map[string]string` as an association list, `""` ↦ the extension name first. -/
abbrev Ext := List (Bytes × Bytes)

/-- `ext[k] = v` -/
def setKV (e : Ext) (k v : Bytes) : Ext :=
  if e.any (fun p => p.1 == k) then e.map (fun p => if p.1 == k then (k, v) else p) else e ++ [(k, v)]

def extName (e : Ext) : Bytes := (e.lookup []).getD []
def extHas (e : Ext) (k : Bytes) : Bool := e.any (fun p => p.1 == k)

inductive PRes where
  | fuel                        -- out of fuel (never)
  | bad                         -- `continue headers`
  | ok (e : Ext) (rest : Bytes)

/-- The optional `=value` of a parameter: `(v, rest)`; without `=` the value is empty. -/
def optValue (s : Bytes) : Bytes × Bytes :=
  match s with
  | 61 :: s2 => ((nextTokenOrQuoted (skipSpace s2)).1, skipSpace (nextTokenOrQuoted (skipSpace s2)).2)
  | _ => ([], s)

/-- what follows a parameter must be nothing, `,` or `;` -/
def badStart : Bytes → Bool
  | [] => false
  | c :: _ => c != 44 && c != 59

/-- The inner loop over `;param[=value]`. -/
def parseParamsF : Nat → Bytes → Ext → PRes
  | 0, _, _ => .fuel
  | fuel + 1, s, ext =>
    match skipSpace s with
    | 59 :: s1 =>
      let ks := nextToken (skipSpace s1)
      if ks.1.isEmpty then .bad
      else
        let vs := optValue (skipSpace ks.2)
        if badStart vs.2 then .bad else parseParamsF fuel vs.2 (setKV ext ks.1 vs.1)
    | rest => .ok ext rest

/-- One header value: the extensions appended to `acc`; `none` = out of fuel (never). -/
def parseExtValueF : Nat → Bytes → List Ext → Option (List Ext)
  | 0, _, _ => none
  | fuel + 1, s, acc =>
    let (t, s) := nextToken (skipSpace s)
    if t.isEmpty then some acc
    else
      match parseParamsF (s.length + 2) s [([], t)] with
      | .fuel => none
      | .bad => some acc
      | .ok ext s =>
        match s with
        | [] => some (acc ++ [ext])
        | c :: rest => if c != 44 then some acc else parseExtValueF fuel rest (acc ++ [ext])

def parseExtValue (s : Bytes) (acc : List Ext) : List Ext := (parseExtValueF (s.length + 1) s acc).getD acc

/-- `parseExtensions(header)` over `header["Sec-Websocket-Extensions"] = vals`. -/
def parseExtensions (vals : List Bytes) : List Ext := vals.foldl (fun acc s => parseExtValue s acc) []

def pmd : Bytes := ascii "permessage-deflate"
def snct : Bytes := ascii "server_no_context_takeover"
def cnct : Bytes := ascii "client_no_context_takeover"

/-! ## headers and their transport by net/http -/

/-- A header block: (name, values) in order. -/
abbrev Header := List (Bytes × List Bytes)

/-- `h[k]`: the values of every entry named exactly `k`, in order. -/
def hget (h : Header) (k : Bytes) : List Bytes := (h.filter (fun p => p.1 == k)).flatMap (·.2)
/-- `h.Get(k)` for a canonical `k`. -/
def hfirst (h : Header) (k : Bytes) : Bytes := (hget h k).head?.getD []
def hhas (h : Header) (k : Bytes) : Bool := h.any (fun p => p.1 == k)

def upper (b : UInt8) : UInt8 := if 97 ≤ b ∧ b ≤ 122 then b - 32 else b

def canonGo (up : Bool) : Bytes → Bytes
  | [] => []
  | b :: t => (if up then upper b else lower b) :: canonGo (b == 45) t

/-- `textproto.CanonicalMIMEHeaderKey`: names with a non-token byte stay as they are. -/
def canon (k : Bytes) : Bytes := if k.all isTokenOctet then canonGo true k else k

/-- What the receiving side's net/http makes of a header block written by the peer. -/
def transport (h : Header) : Header := h.map (fun p => (canon p.1, p.2))

/-! ## strings.TrimSpace / Split for `Subprotocols` (ASCII white space) -/

def isGoSpace (c : UInt8) : Bool := c == 32 || (9 ≤ c && c ≤ 13)
def trimSpace (s : Bytes) : Bytes := ((s.dropWhile isGoSpace).reverse.dropWhile isGoSpace).reverse

def splitComma : Bytes → List Bytes
  | [] => [[]]
  | b :: t =>
    match splitComma t with
    | [] => [[b]]          -- unreachable
    | x :: xs => if b == 44 then [] :: x :: xs else (b :: x) :: xs

/-- `Subprotocols(r)` -/
def subprotocolsOf (h : Header) : List Bytes :=
  let v := trimSpace (hfirst h (ascii "Sec-Websocket-Protocol"))
  if v.isEmpty then [] else (splitComma v).map trimSpace

/-! ## server.go: Upgrader.Upgrade -/

structure Request where
  method : Bytes
  header : Header            -- as net/http delivers it (canonical names)
  buffered : Bool := false   -- the client sent bytes after the header block before the response

structure Upgrader where
  enableCompression : Bool
  subprotocols : Option (List Bytes)   -- nil / non-nil
  originOk : Bool := true

inductive UpOut where
  | httpError (status : Nat)
  | earlyData
  | accept (lines : Header) (compress : Bool) (subprotocol : Bytes)
  deriving DecidableEq

/-- `selectSubprotocol` -/
def selectSubprotocol (u : Upgrader) (r : Request) (respHdr : Option Header) : Bytes :=
  match u.subprotocols with
  | some sps =>
    let cps := subprotocolsOf r.header
    ((sps.filter (fun sp => cps.contains sp)).head?).getD []
  | none =>
    match respHdr with
    | some h => hfirst h (ascii "Sec-Websocket-Protocol")
    | none => []

/-- bytes ≤ 31 of an application header value become spaces -/
def sanitize (v : Bytes) : Bytes := v.map (fun b => if b ≤ 31 then 32 else b)

def serverExtLine : Bytes := ascii "permessage-deflate; server_no_context_takeover; client_no_context_takeover"

/-- The lines of the 101 response the server always writes. -/
def fixedLines (accept sub : Bytes) (compress : Bool) : Header :=
  [(ascii "Upgrade", [ascii "websocket"]), (ascii "Connection", [ascii "Upgrade"]),
   (ascii "Sec-WebSocket-Accept", [accept])]
  ++ (if sub.isEmpty then [] else [(ascii "Sec-Websocket-Protocol", [sub])])
  ++ (if compress then [(ascii "Sec-Websocket-Extensions", [serverExtLine])] else [])

def upgrade (acceptKey : Bytes → Bytes) (u : Upgrader) (respHdr : Option Header) (r : Request) : UpOut :=
  if r.method != ascii "GET" then .httpError 405
  else if (respHdr.getD []).any (fun p => p.1 == ascii "Sec-Websocket-Extensions") then .httpError 500
  else if !tokenListContainsValue (hget r.header (ascii "Connection")) (ascii "upgrade") then .httpError 400
  else if !tokenListContainsValue (hget r.header (ascii "Upgrade")) (ascii "websocket") then .httpError 400
  else if !tokenListContainsValue (hget r.header (ascii "Sec-Websocket-Version")) (ascii "13") then .httpError 400
  else if !u.originOk then .httpError 403
  else
    let key := hfirst r.header (ascii "Sec-Websocket-Key")
    if key.isEmpty then .httpError 400
    else
      let sub := selectSubprotocol u r respHdr
      let compress := u.enableCompression &&
        (parseExtensions (hget r.header (ascii "Sec-Websocket-Extensions"))).any (fun e => extName e == pmd)
      if r.buffered then .earlyData
      else
        let fixed := fixedLines (acceptKey key) sub compress
        let extra : Header := ((respHdr.getD []).filter (fun p => p.1 != ascii "Sec-Websocket-Protocol")).map
          (fun p => (p.1, p.2.map sanitize))
        .accept (fixed ++ extra) compress sub

/-! ## client.go: parseURL, hostPortNoPort -/

structure WsURL where
  scheme : Bytes      -- "ws" / "wss"
  host : Bytes        -- host[:port]
  path : Bytes        -- Go `URL.Opaque`: the path, "/" when absent
  rawQuery : Bytes
  deriving DecidableEq

def stripPrefix (pre : Bytes) (s : Bytes) : Option Bytes :=
  if pre.isPrefixOf s then some (s.drop pre.length) else none

/-- `strings.Index(s, c) >= 0`: the text before and after the first `c`. -/
def cutAt (c : UInt8) : Bytes → Option (Bytes × Bytes)
  | [] => none
  | b :: t =>
    if b == c then some ([], t)
    else match cutAt c t with
      | some (x, y) => some (b :: x, y)
      | none => none

/-- `parseURL` after the scheme: query, path, host; user information is refused. -/
def parseAfterScheme (scheme s : Bytes) : Option WsURL :=
  let sq : Bytes × Bytes := match cutAt 63 s with
    | some (a, b) => (a, b)
    | none => (s, [])
  let ho : Bytes × Bytes := match cutAt 47 sq.1 with
    | some (a, b) => (a, 47 :: b)
    | none => (sq.1, [47])
  if ho.1.contains 64 then none else some { scheme := scheme, host := ho.1, path := ho.2, rawQuery := sq.2 }

/-- `parseURL` (`none` = errMalformedURL). -/
def parseURL (s : Bytes) : Option WsURL :=
  match stripPrefix (ascii "ws://") s with
  | some r => parseAfterScheme (ascii "ws") r
  | none =>
    match stripPrefix (ascii "wss://") s with
    | some r => parseAfterScheme (ascii "wss") r
    | none => none

/-- the request target `Request.Write` puts on the request line for a URL with `Opaque` set -/
def requestURI (u : WsURL) : Bytes :=
  -- `URL.RequestURI` with `Opaque` set: an opaque part that begins with `//` is prefixed by the scheme
  (if (ascii "//").isPrefixOf u.path then u.scheme ++ [58] ++ u.path else u.path)
    ++ (if u.rawQuery.isEmpty then [] else 63 :: u.rawQuery)

def lastIndex (c : UInt8) (s : Bytes) : Int :=
  (s.zipIdx.foldl (fun acc p => if p.1 == c then (p.2 : Int) else acc) (-1))

/-- `hostPortNoPort`: (host:port to dial, host without port) -/
def hostPortNoPort (u : WsURL) : Bytes × Bytes :=
  let i := lastIndex 58 u.host
  if i > lastIndex 93 u.host then (u.host, u.host.take i.toNat)
  else (u.host ++ (if u.scheme == ascii "wss" || u.scheme == ascii "https" then ascii ":443" else ascii ":80"), u.host)

/-! ## client.go: Dialer.Dial -/

structure Dialer where
  enableCompression : Bool
  subprotocols : List Bytes

def joinCommaSp : List Bytes → Bytes
  | [] => []
  | [x] => x
  | x :: xs => x ++ [44, 32] ++ joinCommaSp xs

def clientExtLine : Bytes := serverExtLine

/-- The names a caller may not pass in `requestHeader`. -/
def reservedRequestNames (d : Dialer) : List Bytes :=
  [ascii "Upgrade", ascii "Connection", ascii "Sec-Websocket-Key", ascii "Sec-Websocket-Version",
   ascii "Sec-Websocket-Extensions"] ++ (if d.subprotocols.isEmpty then [] else [ascii "Sec-Websocket-Protocol"])

/-- The lines `Dial` sets itself (spelled as in the RFC's examples). -/
def ownHdr (d : Dialer) (key : Bytes) : Header :=
  [(ascii "Upgrade", [ascii "websocket"]), (ascii "Connection", [ascii "Upgrade"]),
   (ascii "Sec-WebSocket-Key", [key]), (ascii "Sec-WebSocket-Version", [ascii "13"])]
  ++ (if d.subprotocols.isEmpty then [] else [(ascii "Sec-WebSocket-Protocol", [joinCommaSp d.subprotocols])])

/-- `req.Header.Set("Sec-Websocket-Extensions", …)` when compression is enabled. A caller cannot have passed an entry
of that name (reserved), so `Set` appends. -/
def extHdr (d : Dialer) : Header :=
  if d.enableCompression then [(ascii "Sec-Websocket-Extensions", [clientExtLine])] else []

/-- The header block of the upgrade request (`none`: "duplicate header not allowed"). `Host` goes to `req.Host`. -/
def clientRequest (d : Dialer) (key : Bytes) (reqHdr : Header) : Option Header :=
  if reqHdr.any (fun p => (reservedRequestNames d).contains p.1) then none
  else some (ownHdr d key ++ reqHdr.filter (fun p => p.1 != ascii "Host") ++ extHdr d)

inductive ClientOut where
  | badHandshake
  | invalidCompression
  | accept (compress : Bool) (subprotocol : Bytes)
  deriving DecidableEq

/-- The checks of `Dial` on the parsed response (`h` with canonical names). -/
def clientCheck (acceptKey : Bytes → Bytes) (key : Bytes) (status : Nat) (h : Header) : ClientOut :=
  if status != 101
     || !eqFoldC (hfirst h (ascii "Upgrade")) (ascii "websocket")
     || !eqFoldC (hfirst h (ascii "Connection")) (ascii "upgrade")
     || hfirst h (ascii "Sec-Websocket-Accept") != acceptKey key then .badHandshake
  else
    let sub := hfirst h (ascii "Sec-Websocket-Protocol")
    match (parseExtensions (hget h (ascii "Sec-Websocket-Extensions"))).find? (fun e => extName e == pmd) with
    | none => .accept false sub
    | some e => if extHas e snct && extHas e cnct then .accept true sub else .invalidCompression

/-- Both halves together: the library's client against the library's server over net/http. -/
def handshake (acceptKey : Bytes → Bytes) (d : Dialer) (u : Upgrader) (key : Bytes) (reqHdr : Header) :
    Option (UpOut × Option ClientOut) :=
  match clientRequest d key reqHdr with
  | none => none
  | some h =>
    let out := upgrade acceptKey u none { method := ascii "GET", header := transport h }
    match out with
    | .accept lines _ _ => some (out, some (clientCheck acceptKey key 101 (transport lines)))
    | _ => some (out, none)

end Oryx.Model.WsHs
