/-
  Model of /repo/http/http.go (Error / Data / jsonHandler with the default Filter* functions) and
  /repo/http/api.go (ApiRequest = status check + apiParse): the decision logic only.

  * JSON values are an ADT; `encoding/json` is a parameter (`Codec`): `marshal`, `parse`, the bytes
    `http.Error` writes for a text, and the JSONP wrapping of marshalled bytes. The type `T` of
    bodies on the wire is abstract.
  * The error-kind dispatch order, the default status, the content types, the success code and the
    client's status window are taken from `Oryx.Gen.Http` (regenerated from the Go AST on every run).
  Hand-written; tied to the Go code by `corr c19`. Core Lean only.
-/
import Oryx.Base.Bytes
import Oryx.Gen.Http
namespace Oryx.Http
open Oryx

mutual
/-- A Go value handed to the handlers, seen as a JSON tree. `bad` stands for a value `json.Marshal`
rejects (channel, func, NaN/Inf, cycle). `real t txt` is a non-integral number: `t` is what Go's
`int(float64)` yields for it, `txt` its literal. -/
inductive JVal where
  | null
  | bool (b : Bool)
  | num (n : Int)
  | real (trunc : Int) (txt : String)
  | str (s : String)
  | arr (l : JList)
  | obj (m : JMembers)
  | bad
inductive JList where
  | nil
  | cons (v : JVal) (t : JList)
inductive JMembers where
  | nil
  | cons (k : String) (v : JVal) (t : JMembers)
end

/-- `obj[key]` on the decoded map. -/
def JMembers.get? : JMembers → String → Option JVal
  | .nil, _ => none
  | .cons k v t, key => if k = key then some v else t.get? key

/-- Build an object from an association list. -/
def mkObj : List (String × JVal) → JMembers
  | [] => .nil
  | (k, v) :: t => .cons k v (mkObj t)

/-- `encoding/json` and the two ways the handlers write bytes that are not plain marshalled JSON. -/
structure Codec (T : Type) where
  /-- `json.Marshal`; `none` = it returned an error. -/
  marshal : JVal → Option T
  /-- `json.Unmarshal(body, &map)`; `none` = error. -/
  parse : T → Option JVal
  /-- what `http.Error(w, text, status)` writes (`text` and a newline). -/
  text : String → T
  /-- `fmt.Fprintf(w, "%s(%s)", cb, b)`. -/
  jsonp : String → T → T
  /-- the text of the error `json.Marshal` returned for this value. -/
  marshalErr : JVal → String

/-- The assumption about `encoding/json`: what was marshalled parses back to the same tree. -/
def Codec.Lawful {T : Type} (c : Codec T) : Prop :=
  ∀ v t, c.marshal v = some t → c.parse t = some v

/-- The errors `Error()` distinguishes. `status` = the value of `Status()` when the error's type also
implements `HTTPStatus`. -/
inductive Err where
  | cplx (code : Int) (msg : String)                          -- SystemComplexError{code, msg}
  | sys (code : Int)                                          -- SystemError(code)
  | app (code : Int) (text : String) (status : Option Nat)    -- any other type with Code() int
  | plain (text : String) (status : Option Nat)               -- any other error
  deriving DecidableEq, Repr

/-- Name of the type/interface the dispatch in `Error()` asserts for this kind (`none`: no assertion
can match it). -/
def Err.kindName : Err → Option String
  | .cplx .. => some "SystemComplexError"
  | .sys .. => some "SystemError"
  | .app .. => some "AppError"
  | .plain .. => none

/-- `err.Error()`; only the plain branch uses it (for cplx/sys the exact text is `fmt`'s). -/
def Err.text : Err → String
  | .cplx c m => s!"System error={c}, {m}"
  | .sys c => s!"System error={c}"
  | .app _ t _ => t
  | .plain t _ => t

def Err.status? : Err → Option Nat
  | .app _ _ s => s
  | .plain _ s => s
  | _ => none

/-- A response as the client sees it. -/
structure Resp (T : Type) where
  status : Nat
  ctype : String
  /-- `SetHeader` was called (header `Server`). -/
  server : Bool
  body : T

/-- Content type `http.Error` leaves on the response (it replaces the one set before). -/
def textPlain : String := "text/plain; charset=utf-8"

/-- The plain branch of `Error()`: `http.Error(w, err.Error(), status)`. -/
def plainResp {T : Type} (c : Codec T) (text : String) (status? : Option Nat) : Resp T :=
  let status := match status? with
    | some s => if Gen.Http.plainStatusOverride = "HTTPStatus" then s else Gen.Http.plainDefaultStatus
    | none => Gen.Http.plainDefaultStatus
  { status := status, ctype := textPlain, server := true, body := c.text text }

/-- `jsonHandler(ctx, rv)` for an `rv` that is not an `HTTPStatus` (all default filters), with the
value of the `callback` query parameter. -/
def jsonHandler {T : Type} (c : Codec T) (rv : JVal) (cb : String) : Resp T :=
  match c.marshal rv with
  | none =>
    if Gen.Http.marshalFailureGoesToError then plainResp c (c.marshalErr rv) none
    else { status := 200, ctype := Gen.Http.jsonContentType, server := true, body := c.text "" }
  | some b =>
    if cb ≠ "" then { status := 200, ctype := Gen.Http.callbackContentType, server := true, body := c.jsonp cb b }
    else { status := 200, ctype := Gen.Http.jsonContentType, server := true, body := b }

/-- `FilterData`: `{code: 0, server: pid, data: v}` (keys in canonical order). -/
def successEnvelope (pid : Nat) (v : JVal) : JVal :=
  .obj (mkObj [("code", .num (Gen.Http.successCode.getD 1)), ("data", v), ("server", .num pid)])

/-- `Data(ctx, v)`. -/
def respondData {T : Type} (c : Codec T) (pid : Nat) (v : JVal) (cb : String) : Resp T :=
  jsonHandler c (successEnvelope pid v) cb

/-- The JSON the three coded branches hand to `jsonHandler` (default `Filter*Error`). -/
def Err.body : Err → JVal
  | .cplx code msg => .obj (mkObj [("code", .num code), ("data", .str msg)])
  | .sys code => .obj (mkObj [("code", .num code)])
  | .app code text _ => .obj (mkObj [("code", .num code), ("data", .str text)])
  | .plain .. => .null

/-- Does the dispatch of `Error()` (assertions in the extracted order) catch this error? -/
def Err.dispatched (e : Err) : Bool :=
  match e.kindName with
  | some k => Gen.Http.errorDispatch.contains k
  | none => false

/-- `Error(ctx, err)`. -/
def respondErr {T : Type} (c : Codec T) (e : Err) (cb : String) : Resp T :=
  if e.dispatched then jsonHandler c e.body cb else plainResp c e.text e.status?

/-- What `ApiRequest` returns besides the body: `ok` = `err == nil` (then the code is 0),
`fail code` = `err != nil` together with the returned code. -/
inductive ClientRes where
  | ok (code : Int)
  | fail (code : Int)
  deriving DecidableEq, Repr

def codeKey : String := Gen.Http.clientKeys.headD ""

/-- `apiParse` on the result of `json.Unmarshal(body, &map[string]interface{})`. -/
def apiParse : Option JVal → ClientRes
  | some (.obj m) =>
    match m.get? codeKey with
    | some (.num n) => if n ≠ 0 then .fail n else .ok n
    | some (.real t _) => if t ≠ 0 then .fail t else .ok t
    | _ => .fail 0          -- no code / code not a number
  | _ => .fail 0            -- not JSON, or JSON that is not an object (`null` leaves the map empty)

/-- `ApiRequest` on a received (status, body). -/
def apiRequest {T : Type} (c : Codec T) (status : Nat) (body : T) : ClientRes :=
  if Gen.Http.clientChecksStatus && (status < Gen.Http.clientStatusLo || status ≥ Gen.Http.clientStatusHi)
  then .fail status
  else apiParse (c.parse body)

/-- The client before the repair of F18 (status ignored) — kept for the regression witness. -/
def apiRequestIgnoringStatus {T : Type} (c : Codec T) (_status : Nat) (body : T) : ClientRes :=
  apiParse (c.parse body)

/-- The client reading a response. -/
def Resp.read {T : Type} (c : Codec T) (r : Resp T) : ClientRes := apiRequest c r.status r.body

end Oryx.Http
