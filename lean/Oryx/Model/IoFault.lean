/-
  C08 — the I/O paths of /repo/rtmp/rtmp.go and /repo/flv/flv.go over a transport that ENDS or FAILS,
  with every error-wrapping site of the Go code as a layer of the errors-package model
  (Oryx/Model/Errors.lean). Hand-written; tied to the Go code by `corr C08`. Core Lean only.

  Readers: the same control flow as Oryx/Model/Rtmp.lean / Oryx/Model/Flv.lean (the pure parts —
  `applyHeader`, `headerSize`, `onMessageArrived`, tag-header arithmetic — ARE those definitions), in the
  parser monad `SP` whose primitive reads report the transport's error `t` when the stream is exhausted.
  `Oryx/Proofs/IoFault.lean` proves that with `t = 0` (io.EOF) and the layers forgotten they are the
  class-only models that C01 / C09 talk about.

  Writers: the chunk writer over `bufio.Writer` over a transport that accepts `budget` more bytes and then
  fails with root `t`. bufio is a parameter: `pol i n l` = how many buffered bytes it pushes to the transport
  during its i-th `Write` call, which found `n` bytes buffered and was given `l` more (any buffer size, any
  flushing strategy is some `pol`; `goBufio 4096` is Go's); `Flush` pushes all; the first failed transport
  write makes the error sticky.
-/
import Oryx.Model.Errors
import Oryx.Model.Rtmp
import Oryx.Model.Flv
namespace Oryx.IoFault
open Oryx Oryx.Errors Oryx.Rtmp

/-! ## RTMP reader -/

/-- `readBasicHeader`: three `binary.Read`s of one byte, each wrapped. -/
def readBasicHeaderE : SP (Nat × Nat) := do
  let b ← (readFullE 1).wrap "read basic header"
  let v := (b.headD 0).toNat
  let cid := v % 64
  let fmt := v / 64
  if cid > 1 then pure (fmt, cid) else do
  let b2 ← (readFullE 1).wrap s!"read basic header for cid={cid}"
  let cid2 := 64 + (b2.headD 0).toNat
  if cid = 1 then do
    let b3 ← (readFullE 1).wrap s!"read basic header for cid={cid2}"
    pure (fmt, cid2 + (b3.headD 0).toNat * 256)
  else pure (fmt, cid2)

/-- `readMessageHeader`: `io.ReadFull` of the fmt-dependent bytes (`Wrapf "read %vB message header"`), the
extended timestamp (`Wrapf "read ext-ts, pkt-ts=%v"`); the rule violations are `errors.Errorf` roots. -/
def readMessageHeaderE (c : ChunkStream) (fmt : Nat) : SP ChunkStream := do
  let isFirst := c.msg.isNone
  if c.count = 0 ∧ fmt ≠ 0 ∧ ¬ (c.cid = Gen.Rtmp.chunkIDProtocolControl ∧ fmt = 1) then SP.fail (.root 3) else
  if c.msg.isSome ∧ fmt = 0 then SP.fail (.root 3) else do
  let payload := match c.msg with | some m => m.payload | none => []
  let n ← SP.lift (headerSize fmt)
  let p ← (readFullE n).wrap s!"read {n}B message header"
  let (h, ext) ← SP.lift (applyHeader c fmt isFirst p)
  let h ← (if ext then do
      let e ← (readFullE 4).wrap s!"read ext-ts, pkt-ts={h.ts}"
      pure { h with ts := ofBE e % 2147483648 }
    else pure h : SP Header)
  let h : Header := { h with ts := h.ts % 2147483648 }
  pure { c with hdr := h, msg := some { hdr := h, payload := payload }, count := c.count + 1, extTs := ext }

/-- `readMessagePayload`: one `io.ReadFull` of `min(remaining, chunk size)` bytes, `Wrapf "read chunk %vB"`. -/
def readMessagePayloadE (inChunk : Nat) (c : ChunkStream) : SP (ChunkStream × Option Msg) :=
  match c.msg with
  | none => SP.panic
  | some m =>
    if m.hdr.len = 0 then pure ({ c with msg := none }, some m) else
    if m.hdr.len < m.payload.length then SP.panic
    else do
      let n := min (m.hdr.len - m.payload.length) inChunk
      let b ← (readFullE n).wrap s!"read chunk {n}B"
      let m' : Msg := { m with payload := m.payload ++ b }
      if m.hdr.len = m'.payload.length then pure ({ c with msg := none }, some m')
      else pure ({ c with msg := some m' }, none)

/-- One iteration of `ReadMessage`'s loop: each callee's error gets a `WithMessage` layer;
`onMessageArrivated` replaces a decode error by a fresh `errors.Errorf` root (not an I/O error). -/
def readChunkE (st : Reader) : SP (Reader × Option Msg) := do
  let (fmt, cid) ← readBasicHeaderE.withMessage "read basic header"
  let c := st.chunks.getOrNew cid
  let c ← (readMessageHeaderE c fmt).withMessage "read message header"
  let (c, m) ← (readMessagePayloadE st.inChunk c).withMessage "read message payload"
  let st : Reader := { st with chunks := st.chunks.set cid c }
  match m with
  | none => pure (st, none)
  | some m => do
    let inChunk ← (SP.lift (onMessageArrived st.inChunk m)).withMessage "on message"
    pure ({ st with inChunk := inChunk }, some m)

def readLoopE : Nat → Reader → SP (Msg × Reader)
  | 0, _ => SP.panic
  | fuel+1, st => do
    let (st, m) ← readChunkE st
    match m with
    | some m => pure (m, st)
    | none => readLoopE fuel st

/-- `ReadMessage`. -/
def readMessageE (st : Reader) : SP (Msg × Reader) := fun t bs => readLoopE (bs.length + 1) st t bs

/-- `ExpectMessage` / `ExpectPacket` add one `WithMessage "read message"` layer over `ReadMessage`'s error. -/
def expectMessageE (st : Reader) : SP (Msg × Reader) := (readMessageE st).withMessage "read message"

/-- How a read loop over a faulty transport stops. -/
inductive StopE where
  | err (e : Err)
  | panic
  deriving Repr

/-- The caller's loop: `ReadMessage` until the first error. Returns the messages read and the error. -/
def readSessionE : Nat → Reader → Nat → Bytes → List Msg × StopE
  | 0, _, _, _ => ([], .panic)
  | fuel+1, st, t, bs =>
    match readMessageE st t bs with
    | .ok ((m, st), rest) => let r := readSessionE fuel st t rest; (m :: r.1, r.2)
    | .err e => ([], .err e)
    | .panic => ([], .panic)

/-- The session of a reader at chunk size `c` on the bytes `bs`, transport error `t`. -/
def readSession (c : Nat) (t : Nat) (bs : Bytes) : List Msg × StopE :=
  readSessionE (bs.length + 1) { inChunk := c } t bs

/-! ## RTMP handshake reads (`io.CopyN` + `Wrap`) -/

def hsReadC0E : SP Bytes := (copyNE 1).wrap "read c0s0"
def hsReadC1E : SP Bytes := (copyNE 1536).wrap "read c1s1"
def hsReadC2E : SP Bytes := (copyNE 1536).wrap "read c2s2"

/-- The three reads of one side, in order. -/
def hsReadE : SP (Bytes × Bytes × Bytes) := do
  let c0 ← hsReadC0E
  let c1 ← hsReadC1E
  let c2 ← hsReadC2E
  pure (c0, c1, c2)

/-! ## FLV demuxer (`io.CopyN`, errors returned unwrapped) -/

def flvReadHeaderE : SP Flv.Header := do
  let p ← copyNE 13
  let sig ← SP.lift (sliceTo p 3)
  if sig ≠ [0x46, 0x4c, 0x56] then SP.fail (.root 3) else do
  let v ← SP.lift (idx p 3)
  let f ← SP.lift (idx p 4)
  pure { version := v, hasVideo := (f &&& 0x01) == 0x01, hasAudio := ((f >>> 2) &&& 0x01) == 0x01 }

def flvReadTagHeaderE : SP Flv.TagHeader := do
  let p ← copyNE 11
  match p with
  | [b0, b1, b2, b3, b4, b5, b6, b7, _, _, _] =>
    pure { ty := b0, size := ofBE [b1, b2, b3], ts := b7.toNat * 16777216 + ofBE [b4, b5, b6] }
  | _ => SP.panic

def flvReadTagE (size : Nat) : SP Bytes := do
  let p ← copyNE (size + 4)
  if p.length < 4 then SP.panic else pure (p.take (p.length - 4))

def flvReadTagFullE : SP Flv.Tag := do
  let h ← flvReadTagHeaderE
  let b ← flvReadTagE h.size
  pure { ty := h.ty, ts := h.ts, body := b }

def flvReadTagsE : Nat → Nat → Bytes → List Flv.Tag × StopE
  | 0, _, _ => ([], .panic)
  | fuel+1, t, s =>
    match flvReadTagFullE t s with
    | .ok (tg, rest) => let r := flvReadTagsE fuel t rest; (tg :: r.1, r.2)
    | .err e => ([], .err e)
    | .panic => ([], .panic)

/-- A whole file: `ReadHeader`, then tags until the first error. -/
def flvDemuxE (t : Nat) (s : Bytes) : ResE (Flv.Header × List Flv.Tag × StopE) :=
  match flvReadHeaderE t s with
  | .ok (h, rest) => .ok (h, flvReadTagsE (rest.length + 1) t rest)
  | .err e => .err e
  | .panic => .panic

/-! ## Writers over a failing transport -/

/-- `bufio.Writer` over the transport. `out` = bytes the transport accepted so far, `buf` = bytes still in
bufio's buffer, `budget` = bytes the transport will still accept, `err` = bufio's sticky error,
`calls` = number of `Write` calls so far (index into the flushing policy). -/
structure BW where
  out : Bytes := []
  buf : Bytes := []
  budget : Nat
  err : Option Err := none
  calls : Nat := 0
  deriving Repr

/-- Push the first `n` buffered bytes to the transport (failing with root `t` once the budget is used up;
a failed transport write may have accepted a part). Pushing nothing never calls the transport. -/
def BW.push (t : Nat) (w : BW) (n : Nat) : BW :=
  let n := min n w.buf.length
  if n ≤ w.budget then { w with out := w.out ++ w.buf.take n, buf := w.buf.drop n, budget := w.budget - n }
  else { w with out := w.out ++ w.buf.take w.budget, buf := w.buf.drop w.budget, budget := 0, err := some (.root t) }

/-- bufio's flushing policy: call index → bytes buffered before the call → length of `p` → bytes pushed. -/
abbrev Pol := Nat → Nat → Nat → Nat

/-- Go's `bufio.Writer` with buffer size `B`: `p` that fits is only buffered; with an empty buffer a larger
`p` goes to the transport directly; otherwise the buffer is filled and flushed, and what is left of `p` is
written directly if it is larger than the buffer, else buffered. -/
def goBufio (B : Nat) : Pol := fun _ n l =>
  if l ≤ B - n then 0 else if n = 0 then l else if l - (B - n) > B then n + l else B

/-- `(*bufio.Writer).Write(p)` (through `io.Copy(v.w, bytes.NewReader(p))`): refuses when the sticky error is
set; otherwise buffers `p`, pushes what its policy says, and returns the error of that push, if any. -/
def BW.write (t : Nat) (pol : Pol) (w : BW) (p : Bytes) : BW × Option Err :=
  match w.err with
  | some e => (w, some e)
  | none =>
    let w' := ({ w with buf := w.buf ++ p, calls := w.calls + 1 } : BW).push t (pol w.calls w.buf.length p.length)
    (w', w'.err)

/-- `(*bufio.Writer).Flush()`. -/
def BW.flush (t : Nat) (w : BW) : BW × Option Err :=
  match w.err with
  | some e => (w, some e)
  | none => let w' := w.push t w.buf.length; (w', w'.err)

/-- The `Write` calls `WriteMessage` issues, in order: header and payload slice of every chunk
(`true` marks a header). Their concatenation is `writeMessage c m`. -/
def segments (c : Nat) (m : Msg) : Nat → Bool → Bytes → Res (List (Bool × Bytes))
  | _, _, [] => .ok []
  | 0, _, _ :: _ => .panic
  | fuel+1, first, p@(_ :: _) => do
    let h := if first then c0Header m else c3Header m
    let size := (p.take c).length
    let rest ← segments c m fuel false (p.drop size)
    pure ((true, h) :: (false, p.take size) :: rest)

/-- Issue the `Write` calls until one fails: `Wrapf "write c0c3 header %x"` / `Wrapf "write chunk payload %vB"`. -/
def writeSegs (t : Nat) (pol : Pol) : BW → List (Bool × Bytes) → BW × Option Err
  | w, [] => (w, none)
  | w, (isHdr, p) :: rest =>
    match w.write t pol p with
    | (w', some e) =>
      (w', some (.withStack (.withMessage
        (if isHdr then s!"write c0c3 header {toHexRaw p}" else s!"write chunk payload {p.length}B") e)))
    | (w', none) => writeSegs t pol w' rest
where
  /-- `%x` of a byte slice. -/
  toHexRaw (bs : Bytes) : String :=
    String.ofList (bs.foldr (fun b acc =>
      let d (n : Nat) : Char := if n < 10 then Char.ofNat (48 + n) else Char.ofNat (87 + n)
      d (b.toNat / 16) :: d (b.toNat % 16) :: acc) [])

/-- `WriteMessage`: the chunk loop, then `Flush` (`Wrapf "flush writer"`). `.panic` = the writer's loop
diverges (chunk size 0), as in `Rtmp.writeMessage`. -/
def writeMessageW (t : Nat) (pol : Pol) (c : Nat) (w : BW) (m : Msg) : Res (BW × Option Err) := do
  let segs ← segments c m m.payload.length true m.payload
  match writeSegs t pol w segs with
  | (w', some e) => pure (w', some e)
  | (w', none) =>
    match w'.flush t with
    | (w'', some e) => pure (w'', some (.withStack (.withMessage "flush writer" e)))
    | (w'', none) => pure (w'', none)

/-- `WritePacket` adds `WithMessage "write message"` over `WriteMessage`'s error. -/
def writePacketLayer (e : Option Err) : Option Err := Errors.withMessage "write message" e

/-- The caller writes the messages one by one and stops at the first error. Returns the number of
`WriteMessage` calls that returned nil, the error of the failing one (if any), and the final writer. -/
def writeSessionW (t : Nat) (pol : Pol) : Nat → BW → List Msg → Res (Nat × Option Err × BW)
  | _, w, [] => .ok (0, none, w)
  | c, w, m :: ms => do
    let (w', e) ← writeMessageW t pol c w m
    match e with
    | some e => pure (0, some e, w')
    | none => do
      let (n, e, w'') ← writeSessionW t pol (outChunkAfter c m) w' ms
      pure (n + 1, e, w'')

/-- `WritePacket`'s layer over a whole session result. -/
def writePacketSessionW (t : Nat) (pol : Pol) (c : Nat) (w : BW) (ms : List Msg) : Res (Nat × Option Err × BW) := do
  let (n, e, w') ← writeSessionW t pol c w ms
  pure (n, writePacketLayer e, w')

/-! ### FLV muxer: every `io.Copy` is one direct transport write; errors are returned unwrapped -/

/-- The transport writes of a muxed file: the 13-byte header, then per tag the 11-byte tag header, the body
(no call when it is empty) and the 4-byte previous-tag-size. -/
def flvTagWrites (tg : Flv.Tag) : List Bytes :=
  [Flv.tagHeader tg.ty tg.ts tg.body.length] ++ (if tg.body.isEmpty then [] else [tg.body]) ++
    [Flv.prevTagSize tg.body.length]

/-- Direct writes (no bufio): each call pushes its bytes at once. -/
def directWrites (t : Nat) : BW → List Bytes → BW × Option Err
  | w, [] => (w, none)
  | w, p :: rest =>
    match w.write t (fun _ _ l => l) p with   -- buffer is empty before every call: pushes exactly `p`
    | (w', some e) => (w', some e)
    | (w', none) => directWrites t w' rest

/-- Handshake writes `WriteC0S0 / WriteC1S1 / WriteC2S2`: one direct transport write each, `Wrap`ped with
the step's message (`"write c0s1"` is the Go text). Returns the number of steps that returned nil. -/
def hsWritesW (t : Nat) : BW → List (String × Bytes) → Nat × Option Err × BW
  | w, [] => (0, none, w)
  | w, (msg, p) :: rest =>
    match directWrites t w [p] with
    | (w', some e) => (0, some (.withStack (.withMessage msg e)), w')
    | (w', none) => let r := hsWritesW t w' rest; (r.1 + 1, r.2)

def hsWriteW (t : Nat) (w : BW) (c0 c1 c2 : Bytes) : Nat × Option Err × BW :=
  hsWritesW t w [("write c0s0", c0), ("write c0s1", c1), ("write c2s2", c2)]

/-- `WriteHeader` then `WriteTag` per tag, stopping at the first error: number of tags whose `WriteTag`
returned nil (`none` if `WriteHeader` itself failed), the error, the final transport state. -/
def flvWriteTagsW (t : Nat) : BW → List Flv.Tag → Nat × Option Err × BW
  | w, [] => (0, none, w)
  | w, tg :: tgs =>
    match directWrites t w (flvTagWrites tg) with
    | (w', some e) => (0, some e, w')
    | (w', none) => let r := flvWriteTagsW t w' tgs; (r.1 + 1, r.2)

def flvMuxW (t : Nat) (w : BW) (hv ha : Bool) (tags : List Flv.Tag) : Option Nat × Option Err × BW :=
  match directWrites t w [Flv.writeHeader hv ha] with
  | (w', some e) => (none, some e, w')
  | (w', none) => let r := flvWriteTagsW t w' tags; (some r.1, r.2)

end Oryx.IoFault
