/-
  Model of the write side of /repo/websocket: `messageWriter` (conn.go: `flushFrame`, `ncopy`, `Write`,
  `WriteString`, `ReadFrom`, `Close`), `NextWriter`/`prepWrite`, the single-frame fast path of
  `WriteMessage`, `WriteControl`, `Conn.write` with the close-sent latch, prepared messages
  (prepared.go) and `truncWriter` (compression.go). Hand-written; tied to the Go code by `corr c13`.

  Parameters, not modelled code: the write-buffer size `B` (`len(writeBuf) − maxFrameHeaderSize`),
  the masking keys (`newMaskKey` is `math/rand`: the model consumes a supplied list, the harness
  reads the keys the implementation used off the wire), the chunks `compress/flate` writes into the
  `truncWriter` (the harness replays flate deterministically), the chunking of the `io.Reader`
  given to `ReadFrom`. The transport accepts every write (failure injection is C15/C08 territory).
  Core Lean only.
-/
import Oryx.Base.Bytes
import Oryx.Gen.Websocket
namespace Oryx.WsWrite
open Oryx Oryx.Gen.Websocket

inductive WErr where
  | closeSent          -- ErrCloseSent (the writeErr latch)
  | invalidControl     -- errInvalidControlFrame
  | badOpcode          -- errBadWriteOpCode
  | writeClosed        -- errWriteClosed
  | internal           -- "internal error, …"
  deriving DecidableEq, Repr

/-- `messageWriter`; `buf` is `writeBuf[maxFrameHeaderSize:pos]`. -/
structure MW where
  compress : Bool
  buf : Bytes
  frameType : Nat
  err : Option WErr := none
  deriving DecidableEq, Repr

/-- Write fields of `Conn`. `writer` is `c.writer` when it is a plain `messageWriter` (the value is
kept in step with the application's handle by the operations below). -/
structure WConn where
  isServer : Bool
  bufSize : Nat                      -- B ≥ 1
  deflate : Bool                     -- newCompressionWriter != nil && enableWriteCompression
  keys : List Bytes                  -- what successive newMaskKey() calls return
  sent : List Bytes := []            -- the buffers of successive Conn.write calls, NEWEST FIRST (see `wire`)
  writeErr : Option WErr := none
  writer : Option MW := none
  deriving DecidableEq, Repr

/-- Everything `conn.Write` received, in order. -/
def WConn.wire (c : WConn) : Bytes := c.sent.reverse.flatten

def isControl (t : Nat) : Bool := t == CloseMessage || t == PingMessage || t == PongMessage
def isData (t : Nat) : Bool := t == TextMessage || t == BinaryMessage

/-- `maskBytes(key, pos, b)`: cyclic XOR (the word-at-a-time fast path is tied by `corr c13`). -/
def maskBytes (key : Bytes) : Nat → Bytes → Bytes
  | _, [] => []
  | pos, b :: bs => (b ^^^ key.getD (pos % 4) 0) :: maskBytes key (pos + 1) bs

/-- `newMaskKey()`: next supplied key (all zero when the supply is exhausted). -/
def nextKey (c : WConn) : Bytes × WConn :=
  match c.keys with
  | [] => ([0, 0, 0, 0], c)
  | k :: ks => (k, { c with keys := ks })

/-- The header `flushFrame` assembles in front of the buffered payload: `b0`, `b1 | lengthfield`,
extended length in the minimal form (`length >= 65536` → 8 bytes, `> 125` → 2 bytes). -/
def frameHeader (b0 : UInt8) (maskBit : UInt8) (length : Nat) : Bytes :=
  if length ≥ 65536 then [b0, maskBit ||| 127] ++ be 8 length
  else if length > 125 then [b0, maskBit ||| 126] ++ be 2 length
  else [b0, maskBit ||| UInt8.ofNat length]

/-- `Conn.write(frameType, deadline, bufs…)`: latch check, the transport writes, close latch. -/
def connWrite (c : WConn) (frameType : Nat) (bufs : Bytes) : WConn × Option WErr :=
  match c.writeErr with
  | some e => (c, some e)
  | none =>
    let c := { c with sent := bufs :: c.sent }
    if frameType == CloseMessage then ({ c with writeErr := some .closeSent }, none) else (c, none)

/-- `messageWriter.flushFrame(final, extra)`. `w.fatal` is a no-op while `w.err == nil` (as in the
code: `if w.err != nil { w.err = err … }`), so a failed flush leaves the writer usable. -/
def flushFrame (c : WConn) (w : MW) (final : Bool) (extra : Bytes) : WConn × MW × Option WErr :=
  let length := w.buf.length + extra.length
  if isControl w.frameType && (!final || length > maxControlFramePayloadSize) then
    (c, w, some .invalidControl)
  else
    let b0 : UInt8 := UInt8.ofNat w.frameType ||| (if final then UInt8.ofNat finalBit else 0)
                        ||| (if w.compress then UInt8.ofNat rsv1Bit else 0)
    let w := { w with compress := false }
    if c.isServer then
      let (c, e) := connWrite c w.frameType (frameHeader b0 0 length ++ w.buf ++ extra)
      match e with
      | some e => (c, w, some e)
      | none => if final then ({ c with writer := none }, w, none)
                else (c, { w with buf := [], frameType := continuationFrame }, none)
    else
      let (key, c) := nextKey c
      let masked := maskBytes key 0 w.buf
      if extra.length > 0 then
        -- c.writeFatal(errors.New("websocket: internal error, extra used in client mode"))
        ({ c with writeErr := match c.writeErr with | none => some .internal | some e => some e },
         { w with buf := masked }, some .internal)
      else
        let (c, e) := connWrite c w.frameType (frameHeader b0 (UInt8.ofNat maskBit) length ++ key ++ masked)
        match e with
        | some e => (c, { w with buf := masked }, some e)
        | none => if final then ({ c with writer := none }, { w with buf := masked }, none)
                  else (c, { w with buf := [], frameType := continuationFrame }, none)

/-- The copy loop shared by `Write` and `WriteString`: `ncopy` (flush a non-final frame when the
buffer is full), then copy as much as fits. `fuel` ≥ `p.length + 1` suffices (each round copies ≥ 1
byte because `B ≥ 1`); exhaustion is reported as `internal` and proved impossible. -/
def copyLoop : Nat → WConn → MW → Bytes → WConn × MW × Option WErr
  | 0, c, w, _ => (c, w, some .internal)
  | _ + 1, c, w, [] => (c, w, none)
  | fuel + 1, c, w, p =>
    -- `n` = free space; `take`/`drop` stop at the end of `p` (Go: `n = min(n, len(p))`)
    if c.bufSize ≤ w.buf.length then
      match flushFrame c w false [] with
      | (c, w, some e) => (c, w, some e)
      | (c, w, none) =>
        let n := c.bufSize - w.buf.length
        copyLoop fuel c { w with buf := w.buf ++ p.take n } (p.drop n)
    else
      let n := c.bufSize - w.buf.length
      copyLoop fuel c { w with buf := w.buf ++ p.take n } (p.drop n)

/-- Keep `c.writer` (a pointer to the same `messageWriter`) in step with the application's handle. -/
def sync (r : WConn × MW × Option WErr) : WConn × MW × Option WErr :=
  ({ r.1 with writer := r.1.writer.map fun _ => r.2.1 }, r.2.1, r.2.2)

/-- `messageWriter.Write`. -/
def mwWrite (c : WConn) (w : MW) (p : Bytes) : WConn × MW × Option WErr :=
  match w.err with
  | some e => (c, w, some e)
  | none =>
    if p.length > 2 * (c.bufSize + maxFrameHeaderSize) && c.isServer then
      sync (flushFrame c w false p)              -- "Don't buffer large messages."
    else sync (copyLoop (p.length + 1) c w p)

/-- `messageWriter.WriteString` (no large-message path). -/
def mwWriteString (c : WConn) (w : MW) (p : Bytes) : WConn × MW × Option WErr :=
  match w.err with
  | some e => (c, w, some e)
  | none => sync (copyLoop (p.length + 1) c w p)

/-- `messageWriter.ReadFrom(r)`: `r.Read(writeBuf[pos:])` returns at most `chunks.head` bytes (≥ 1; the
source's own chunking), at most the free space, at most what is left; when the script is used up the
source hands out everything that fits. A full buffer is flushed as a non-final frame first. -/
def readFromLoop : Nat → WConn → MW → List Nat → Bytes → WConn × MW × Option WErr
  | 0, c, w, _, _ => (c, w, some .internal)
  | fuel + 1, c, w, chunks, data =>
    let step (c : WConn) (w : MW) : WConn × MW × Option WErr :=
      match data with
      | [] => (c, w, none)                        -- Read returns (0, io.EOF)
      | _ =>
        let free := c.bufSize - w.buf.length
        let n := match chunks with | [] => free | k :: _ => min (max k 1) free
        readFromLoop fuel c { w with buf := w.buf ++ data.take n } chunks.tail (data.drop n)
    if w.buf.length == c.bufSize then
      match flushFrame c w false [] with
      | (c, w, some e) => (c, w, some e)
      | (c, w, none) => step c w
    else step c w

def mwReadFrom (c : WConn) (w : MW) (chunks : List Nat) (data : Bytes) : WConn × MW × Option WErr :=
  match w.err with
  | some e => (c, w, some e)
  | none => sync (readFromLoop (data.length + 2) c w chunks data)

/-- `messageWriter.Close`. -/
def mwClose (c : WConn) (w : MW) : WConn × MW × Option WErr :=
  match w.err with
  | some e => (c, w, some e)
  | none =>
    match flushFrame c w true [] with
    | (c, w, some e) => sync (c, w, some e)
    | (c, w, none) => (c, { w with err := some .writeClosed }, none)

/-- One call on an open message writer (the three ways the API accepts payload). -/
inductive WOp where
  | write (p : Bytes)                          -- `w.Write(p)`
  | writeString (p : Bytes)                    -- `io.WriteString(w, p)` → `w.WriteString(p)`
  | readFrom (chunks : List Nat) (p : Bytes)   -- `io.Copy(w, r)` → `w.ReadFrom(r)`; `chunks` = the source's chunking
  deriving Repr

def WOp.data : WOp → Bytes
  | .write p => p
  | .writeString p => p
  | .readFrom _ p => p

def mwOp (c : WConn) (w : MW) : WOp → WConn × MW × Option WErr
  | .write p => mwWrite c w p
  | .writeString p => mwWriteString c w p
  | .readFrom ks p => mwReadFrom c w ks p

/-- A sequence of calls on the same writer; stops at the first error. -/
def mwOps (c : WConn) (w : MW) : List WOp → WConn × MW × Option WErr
  | [] => (c, w, none)
  | op :: ops =>
    match mwOp c w op with
    | (c, w, some e) => (c, w, some e)
    | (c, w, none) => mwOps c w ops

/-- `prepWrite`: a writer the application left open is closed first (its error is ignored, and what
it still had buffered goes out as a final frame if `flushFrame` accepts it); then the opcode and
the `writeErr` latch are checked. Only plain `messageWriter`s are tracked in `c.writer` (a
compressed writer left open is outside the model: the drivers always close those). -/
def prepWrite (c : WConn) (messageType : Nat) : WConn × Option WErr :=
  let c := match c.writer with
    | some w => { (mwClose c w).1 with writer := none }
    | none => c
  if !isControl messageType && !isData messageType then (c, some .badOpcode)
  else (c, c.writeErr)

/-- `NextWriter`: `prepWrite`, then the new `messageWriter` (registered as `c.writer`). -/
def nextWriter (c : WConn) (messageType : Nat) : WConn × Except WErr MW :=
  match prepWrite c messageType with
  | (c, some e) => (c, .error e)
  | (c, none) =>
    let w : MW := { compress := c.deflate && isData messageType, buf := [], frameType := messageType }
    ({ c with writer := some w }, .ok w)

/-- `WriteMessage` without compression: the server's single-frame fast path (the `messageWriter` is
a local there, not `c.writer`), or NextWriter + Write + Close (a failing `Write` returns at once and
leaves the writer open). -/
def writeMessage (c : WConn) (messageType : Nat) (data : Bytes) : WConn × Option WErr :=
  if c.isServer && !c.deflate then
    match prepWrite c messageType with
    | (c, some e) => (c, some e)
    | (c, none) =>
      let w : MW := { compress := false, buf := data.take c.bufSize, frameType := messageType }
      let (c, _, e) := flushFrame c w true (data.drop c.bufSize)
      (c, e)
  else
    match nextWriter c messageType with
    | (c, .error e) => (c, some e)
    | (c, .ok w) =>
      match mwWrite c w data with
      | (c, _, some e) => (c, some e)
      | (c, w, none) => let (c, _, e) := mwClose c w; (c, e)

/-- One data message through `NextWriter`, any sequence of calls on the writer, `Close`. With
compression negotiated the calls are the `truncWriter`'s downstream writes (see `deflateChunks`). -/
def writeMsg (c : WConn) (messageType : Nat) (ops : List WOp) : WConn × Option WErr :=
  match nextWriter c messageType with
  | (c, .error e) => (c, some e)
  | (c, .ok w) =>
    match mwOps c w ops with
    | (c, _, some e) => (c, some e)
    | (c, w, none) => let (c, _, e) := mwClose c w; (c, e)

/-- A session: messages written one after the other. -/
def writeMsgs (c : WConn) : List (Nat × List WOp) → WConn × Option WErr
  | [] => (c, none)
  | (ty, ops) :: rest =>
    match writeMsg c ty ops with
    | (c, some e) => (c, some e)
    | (c, none) => writeMsgs c rest

/-- `WriteControl` (deadline/timeout not modelled). -/
def writeControl (c : WConn) (messageType : Nat) (data : Bytes) : WConn × Option WErr :=
  if !isControl messageType then (c, some .badOpcode)
  else if data.length > maxControlFramePayloadSize then (c, some .invalidControl)
  else
    let b0 : UInt8 := UInt8.ofNat messageType ||| UInt8.ofNat finalBit
    if c.isServer then
      connWrite c messageType ([b0, UInt8.ofNat data.length] ++ data)
    else
      let (key, c) := nextKey c
      connWrite c messageType ([b0, UInt8.ofNat data.length ||| UInt8.ofNat maskBit] ++ key ++ maskBytes key 0 data)

/-! ### truncWriter (compression.go) -/

/-- `truncWriter.Write(p)`: new withheld bytes and the writes passed downstream (in order; the second
may be empty). -/
def truncWrite (held : Bytes) (p : Bytes) : Bytes × List Bytes :=
  let fill := min (4 - held.length) p.length
  let held1 := held ++ p.take fill
  let p1 := p.drop fill
  if p1.isEmpty then (held1, [])
  else
    let m := min p1.length 4
    (held1.drop m ++ p1.drop (p1.length - m), [held1.take m, p1.take (p1.length - m)])

/-- A whole stream written through a `truncWriter` in pieces: final withheld bytes and everything
passed downstream. -/
def truncRun (held : Bytes) (down : Bytes) : List Bytes → Bytes × Bytes
  | [] => (held, down)
  | p :: ps => truncRun (truncWrite held p).1 (down ++ (truncWrite held p).2.flatten) ps

/-- Successive `messageWriter.Write` calls (what the `truncWriter` passes downstream). -/
def mwWrites (c : WConn) (w : MW) : List Bytes → WConn × MW × Option WErr
  | [] => (c, w, none)
  | d :: ds =>
    match mwWrite c w d with
    | (c, w, some e) => (c, w, some e)
    | (c, w, none) => mwWrites c w ds

/-- A compressed data message: `chunks` are the writes `flate.Writer` makes into the `truncWriter`
(including those of the final `Flush`). Each downstream write is a `messageWriter.Write`. `Close`
requires the withheld bytes to be `00 00 ff ff`, then closes the message writer. -/
def deflateChunks (c : WConn) (w : MW) (held : Bytes) : List Bytes → WConn × MW × Bytes × Option WErr
  | [] => (c, w, held, none)
  | ch :: rest =>
    match mwWrites c w (truncWrite held ch).2 with
    | (c, w, some e) => (c, w, (truncWrite held ch).1, some e)
    | (c, w, none) => deflateChunks c w (truncWrite held ch).1 rest

def deflateClose (c : WConn) (w : MW) (held : Bytes) : WConn × MW × Option WErr :=
  if held != [0, 0, 0xff, 0xff] then (c, w, some .internal)
  else mwClose c w

/-- `WriteMessage` of a data message with compression negotiated and enabled. -/
def writeMessageZ (c : WConn) (messageType : Nat) (chunks : List Bytes) : WConn × Option WErr :=
  match nextWriter c messageType with
  | (c, .error e) => (c, some e)
  | (c, .ok w) =>
    -- `c.writer` is the flate wrapper here, not tracked
    match deflateChunks { c with writer := none } w [] chunks with
    | (c, _, _, some e) => (c, some e)
    | (c, w, held, none) => let (c, _, e) := deflateClose c w held; (c, e)

/-! ### prepared messages (prepared.go) -/

/-- `PreparedMessage.frame(key)`: `WriteMessage` on a throw-away `Conn` of the same role with the
default buffer size; its wire image is then written with one `Conn.write`. `chunks = none`: no
compression for this connection; `some cs`: the flate chunks. -/
def writePrepared (c : WConn) (messageType : Nat) (data : Bytes) (chunks : Option (List Bytes)) :
    WConn × Option WErr :=
  let fake : WConn := { isServer := c.isServer, bufSize := defaultWriteBufferSize,
                        deflate := chunks.isSome && isData messageType, keys := c.keys }
  let (fake, e) := match chunks with
    | some cs => if isData messageType then writeMessageZ fake messageType cs else writeMessage fake messageType data
    | none => writeMessage fake messageType data
  match e with
  | some e => (c, some e)
  | none => connWrite { c with keys := fake.keys } messageType fake.wire

end Oryx.WsWrite
