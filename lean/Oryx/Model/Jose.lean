/-
  Model of what the LIBRARY adds in /repo/https/jose (encoding.go, jws.go, jwe.go, signing.go,
  crypter.go, symmetric.go, asymmetric.go, jwk.go, shared.go, cipher/cbc_hmac.go, cipher/key_wrap.go).
  Cryptographic primitives (HMAC, RSA/ECDSA, AES block, GCM, CBC mode, SHA-2, flate) are NOT
  modelled: they are parameters (see Props/C16 for the idealised laws used as hypotheses).
  Hand-written; tied to the Go code by `corr c16`. Core Lean only.
-/
import Oryx.Base.Bytes
namespace Oryx.Jose
open Oryx Oryx.Res

/-! ## base64url (encoding.go: base64URLEncode / base64URLDecode over encoding/base64.URLEncoding) -/

def alphabet : List Char :=
  "ABCDEFGHIJKLMNOPQRSTUVWXYZabcdefghijklmnopqrstuvwxyz0123456789-_".toList

def encChar (n : Nat) : Char := alphabet.getD n 'A'

/-- `decodeMap`: the 6-bit value of an alphabet character. -/
def sextet (c : Char) : Option Nat :=
  let i := alphabet.idxOf c
  if i < 64 then some i else none

/-- `base64URLEncode`: URL alphabet, trailing `=` trimmed. -/
def b64 : Bytes → List Char
  | [] => []
  | [a] => [encChar (a.toNat / 4), encChar (a.toNat % 4 * 16)]
  | [a, b] => [encChar (a.toNat / 4), encChar (a.toNat % 4 * 16 + b.toNat / 16), encChar (b.toNat % 16 * 4)]
  | a :: b :: c :: rest =>
    encChar (a.toNat / 4) :: encChar (a.toNat % 4 * 16 + b.toNat / 16) ::
    encChar (b.toNat % 16 * 4 + c.toNat / 64) :: encChar (c.toNat % 64) :: b64 rest

def isNl (c : Char) : Bool := c = '\n' || c = '\r'

/-- Go's padded, non-strict `Encoding.DecodeString` on input without newlines: quanta of four
alphabet characters; the last quantum may be `xx==` or `xxx=` (the unused low bits of the last
character are ignored — the decoder's leniency); anything else is a CorruptInputError. -/
def decQ : List Char → Res Bytes
  | [] => ok []
  | c1 :: c2 :: c3 :: c4 :: rest =>
    match sextet c1, sextet c2 with
    | some s1, some s2 =>
      match sextet c3, sextet c4 with
      | some s3, some s4 =>
        match decQ rest with
        | .ok r => ok (UInt8.ofNat (s1 * 4 + s2 / 16) :: UInt8.ofNat (s2 % 16 * 16 + s3 / 4) ::
                       UInt8.ofNat (s3 % 4 * 64 + s4) :: r)
        | e => e
      | some s3, none =>
        if c4 = '=' ∧ rest = [] then ok [UInt8.ofNat (s1 * 4 + s2 / 16), UInt8.ofNat (s2 % 16 * 16 + s3 / 4)]
        else err .generic
      | none, _ =>
        if c3 = '=' ∧ c4 = '=' ∧ rest = [] then ok [UInt8.ofNat (s1 * 4 + s2 / 16)] else err .generic
    | _, _ => err .generic
  | _ => err .generic

/-- `base64URLDecode`: append `(4 - len % 4) % 4` padding characters, then `DecodeString`, which
skips `\r` and `\n` wherever they occur. -/
def unb64 (s : List Char) : Res Bytes :=
  decQ ((s ++ List.replicate ((4 - s.length % 4) % 4) '=').filter (fun c => !isNl c))

/-- Clear the low bits of an alphabet character's 6-bit value (`m` = 16: low four bits, 4: low two). -/
def clearLow (m : Nat) (c : Char) : Char :=
  match sextet c with
  | some n => encChar (n / m * m)
  | none => c

/-- The canonical form of an unpadded base64url text: the bits of the last character that carry no
data (four after a 2-character tail, two after a 3-character tail) set to zero. The decoder accepts
a text iff it accepts its canonical form, with the same octets — this is all of its leniency. -/
def canonLast : List Char → List Char
  | c1 :: c2 :: c3 :: c4 :: rest => c1 :: c2 :: c3 :: c4 :: canonLast rest
  | [c1, c2] => [c1, clearLow 16 c2]
  | [c1, c2, c3] => [c1, c2, clearLow 4 c3]
  | s => s

/-! ## compact serialisation (jws.go / jwe.go: CompactSerialize, parseSignedCompact, parseEncryptedCompact) -/

/-- `strings.Split(s, ".")`. -/
def splitDot : List Char → List (List Char)
  | [] => [[]]
  | c :: r =>
    if c = '.' then [] :: splitDot r
    else match splitDot r with
      | h :: t => (c :: h) :: t
      | [] => [[c]]

/-- `fmt.Sprintf("%s.%s…")`. -/
def joinDot : List (List Char) → List Char
  | [] => []
  | [a] => a
  | a :: rest => a ++ '.' :: joinDot rest

def compactSerialize (parts : List Bytes) : List Char := joinDot (parts.map b64)

def unb64All : List (List Char) → Res (List Bytes)
  | [] => ok []
  | p :: ps =>
    match unb64 p with
    | .ok b => (match unb64All ps with
      | .ok bs => ok (b :: bs)
      | .err k => err k
      | .panic => .panic)
    | .err k => err k
    | .panic => .panic

/-- `stripWhitespace` (regexp `\s`: space, \t, \n, \v?, \f, \r — Go's `\s` is `[\t\n\f\r ]`). -/
def isWs (c : Char) : Bool := c = ' ' || c = '\t' || c = '\n' || c = '\x0c' || c = '\r'
def stripWs (s : List Char) : List Char := s.filter (fun c => !isWs c)

/-- `parseSignedCompact` (n = 3) / `parseEncryptedCompact` (n = 5), after `stripWhitespace`. -/
def compactParse (n : Nat) (s : List Char) : Res (List Bytes) :=
  let parts := splitDot (stripWs s)
  if parts.length ≠ n then err .generic else unb64All parts

/-! ## signing input and AAD -/

/-- JWS signing input `b64(protected) "." b64(payload)` (signing.go Sign; jws.go computeAuthData uses
the protected octets AS RECEIVED). -/
def signingInput (prot payload : Bytes) : List Char := b64 prot ++ '.' :: b64 payload

/-- JWE additional authenticated data `b64(protected) [ "." b64(aad) ]` (jwe.go computeAuthData;
`aad = none` is Go's nil slice). -/
def aadInput (prot : Bytes) : Option Bytes → List Char
  | none => b64 prot
  | some a => b64 prot ++ '.' :: b64 a

/-! ## PKCS#7 padding (cipher/cbc_hmac.go padBuffer / unpadBuffer) -/

def pad (k : Nat) (b : Bytes) : Bytes :=
  let m := k - b.length % k
  b ++ List.replicate m (UInt8.ofNat m)

/-- `unpadBuffer` (repaired, F28): an empty buffer is invalid padding. Before, it passed the length check and
`buffer[len-1]` panicked (`unpadUnrepaired`). -/
def unpad (k : Nat) (b : Bytes) : Res Bytes :=
  if b.length = 0 ∨ b.length % k ≠ 0 then err .generic else
  match b.getLast? with
  | none => .panic   -- unreachable: the buffer is not empty
  | some last =>
    let count := last.toNat
    if count = 0 ∨ count > k ∨ count > b.length then err .generic
    else if b.drop (b.length - count) = List.replicate count last then ok (b.take (b.length - count))
    else err .generic

/-- `unpadBuffer` before the repair of F28. -/
def unpadUnrepaired (k : Nat) (b : Bytes) : Res Bytes :=
  if b.length % k ≠ 0 then err .generic else
  match b.getLast? with
  | none => .panic
  | some last =>
    let count := last.toNat
    if count = 0 ∨ count > k ∨ count > b.length then err .generic
    else if b.drop (b.length - count) = List.replicate count last then ok (b.take (b.length - count))
    else err .generic

/-! ## CBC-HMAC tag input (cipher/cbc_hmac.go computeAuthTag) -/

/-- `aad ‖ iv ‖ ciphertext ‖ uint64be(len(aad) * 8)` — the HMAC is applied to this. -/
def tagInput (aad iv ct : Bytes) : Bytes := aad ++ iv ++ ct ++ be 8 (aad.length * 8 % 2 ^ 64)

/-! ## RFC 3394 key wrap (cipher/key_wrap.go) over an arbitrary 16-byte block function -/

def defaultIV : Bytes := [0xA6, 0xA6, 0xA6, 0xA6, 0xA6, 0xA6, 0xA6, 0xA6]

def xorBytes (a b : Bytes) : Bytes := List.zipWith (· ^^^ ·) a b

/-- `n` blocks of 8 bytes (`copy(r[i], cek[i*8:])`). -/
def chunks8 : Nat → Bytes → List Bytes
  | 0, _ => []
  | n+1, b => b.take 8 :: chunks8 n (b.drop 8)

structure KwState where
  a : Bytes
  r : List Bytes

/-- One iteration `t` of the wrapping loop. -/
def wrapStep (enc : Bytes → Bytes) (n t : Nat) (s : KwState) : KwState :=
  let b := enc (s.a ++ s.r.getD (t % n) [])
  { a := xorBytes (b.take 8) (be 8 (t + 1)), r := s.r.set (t % n) (b.drop 8) }

/-- Iterations `t = 0 … c-1`. -/
def wrapUpTo (enc : Bytes → Bytes) (n : Nat) : Nat → KwState → KwState
  | 0, s => s
  | c+1, s => wrapStep enc n c (wrapUpTo enc n c s)

/-- One iteration `t` of the unwrapping loop. -/
def unwrapStep (dec : Bytes → Bytes) (n t : Nat) (s : KwState) : KwState :=
  let b := dec (xorBytes s.a (be 8 (t + 1)) ++ s.r.getD (t % n) [])
  { a := b.take 8, r := s.r.set (t % n) (b.drop 8) }

/-- Iterations `t = c-1, …, 0`. -/
def unwrapDown (dec : Bytes → Bytes) (n : Nat) : Nat → KwState → KwState
  | 0, s => s
  | c+1, s => unwrapDown dec n c (unwrapStep dec n c s)

/-- `KeyWrap(block, cek)`. -/
def keyWrap (enc : Bytes → Bytes) (cek : Bytes) : Res Bytes :=
  if cek.length % 8 ≠ 0 then err .generic else
  let n := cek.length / 8
  let s := wrapUpTo enc n (6 * n) { a := defaultIV, r := chunks8 n cek }
  ok (s.a ++ s.r.flatten)

/-- `KeyUnwrap(block, ciphertext)` (repaired: an input shorter than the IV is an error; before the
repair `n = -1` made `make([][]byte, n)` panic — `keyUnwrapUnrepaired`). -/
def keyUnwrap (dec : Bytes → Bytes) (ct : Bytes) : Res Bytes :=
  if ct.length < 8 ∨ ct.length % 8 ≠ 0 then err .generic else
  let n := ct.length / 8 - 1
  let s := unwrapDown dec n (6 * n) { a := ct.take 8, r := chunks8 n (ct.drop 8) }
  if s.a = defaultIV then ok s.r.flatten else err .generic

def keyUnwrapUnrepaired (dec : Bytes → Bytes) (ct : Bytes) : Res Bytes :=
  if ct.length % 8 ≠ 0 then err .generic else
  if ct.length / 8 = 0 then .panic else keyUnwrap dec ct

/-- A toy invertible 16-byte block function (the harness implements the same `cipher.Block`), so
that wrapping is compared byte for byte: add `k+i` to byte `i`, rotate left by 5. -/
def toyEnc (k : Nat) (b : Bytes) : Bytes :=
  let c := (List.zipIdx b).map (fun p => p.1 + UInt8.ofNat (k + 7 * p.2))
  c.drop 5 ++ c.take 5

def toyDec (k : Nat) (b : Bytes) : Bytes :=
  let c := b.drop (b.length - 5) ++ b.take (b.length - 5)
  (List.zipIdx c).map (fun p => p.1 - UInt8.ofNat (k + 7 * p.2))

/-! ## fixed-width big-endian integers (asymmetric.go ECDSA r‖s; jwk.go EC coordinates) -/

/-- `newFixedSizeBuffer(v.Bytes(), n)`: left-padded with zeros; panics if the value needs more than
`n` bytes. -/
def fixedSize (n v : Nat) : Res Bytes := if v < 256 ^ n then ok (be n v) else .panic

/-- ECDSA signature octets `r ‖ s`, each `size` bytes (the `copy` into the padded buffer panics for
a value that does not fit; a curve's r, s always fit). -/
def ecSigEncode (size r s : Nat) : Res Bytes :=
  if r < 256 ^ size ∧ s < 256 ^ size then ok (be size r ++ be size s) else .panic

/-- `ecEncrypterVerifier.verifyPayload`: length must be `2·size`, then the halves are read big-endian. -/
def ecSigDecode (size : Nat) (sig : Bytes) : Res (Nat × Nat) :=
  if sig.length ≠ 2 * size then err .generic else ok (ofBE (sig.take size), ofBE (sig.drop size))

/-- `curveSize`: bytes per coordinate. -/
def curveSize (bits : Nat) : Nat := if bits % 8 = 0 then bits / 8 else bits / 8 + 1

/-- EC public key coordinates in a JWK: both `curveSize` bytes; `fromEcPublicKey` returns an error
(not a panic) when a coordinate is too large. -/
def ecCoordsEncode (size x y : Nat) : Res (Bytes × Bytes) :=
  if x < 256 ^ size ∧ y < 256 ^ size then ok (be size x, be size y) else err .generic

def ecCoordsDecode (xb yb : Bytes) : Nat × Nat := (ofBE xb, ofBE yb)

/-! ## header merge (shared.go rawHeader.merge; jwe.go mergedHeaders; jws.go Signature.mergedHeaders) -/

/-- The string-valued header fields the decision logic looks at (`""` = unset, as in Go). -/
structure Header where
  alg : String := ""
  enc : String := ""
  zip : String := ""
  kid : String := ""
  nonce : String := ""
  deriving DecidableEq, Repr

def pick (dst src : String) : String := if dst = "" then src else dst

/-- `dst.merge(src)`: a field already set in `dst` wins. -/
def Header.merge (dst : Header) (src : Option Header) : Header :=
  match src with
  | none => dst
  | some s => { alg := pick dst.alg s.alg, enc := pick dst.enc s.enc, zip := pick dst.zip s.zip,
                kid := pick dst.kid s.kid, nonce := pick dst.nonce s.nonce }

/-- `mergedHeaders(recipient)`: protected, then unprotected, then the per-recipient header. -/
def mergedHeaders (prot unprot recipient : Option Header) : Header :=
  ((({} : Header).merge prot).merge unprot).merge recipient

/-! ## parameter checks of the content cipher before `Open` (symmetric.go aeadContentCipher.decrypt) -/

inductive Enc where
  | a128gcm | a192gcm | a256gcm | a128cbc | a192cbc | a256cbc
  deriving DecidableEq, Repr

def Enc.isGcm : Enc → Bool
  | .a128gcm | .a192gcm | .a256gcm => true
  | _ => false

/-- `aead.NonceSize()`. -/
def Enc.nonceSize (e : Enc) : Nat := if e.isGcm then 12 else 16

/-- `aeadContentCipher.authtagBytes` as the source sets it (16 for every algorithm). -/
def Enc.tagBytes (_ : Enc) : Nat := 16

def aesKeyOk (n : Nat) : Bool := n = 16 || n = 24 || n = 32

/-- What happens before the primitive's `Open` is entered, as a function of the lengths only:
`err` = rejected, `panic` = a documented panic of the standard library would be hit (nil hash for a
CBC-HMAC key of 31/47/63 bytes), `ok` = `Open` is called with well-sized parameters. -/
def precheck (e : Enc) (keyLen ivLen ctLen tagLen : Nat) : Res Unit :=
  -- getAead(key)
  if e.isGcm then
    if !aesKeyOk keyLen then err .generic
    else if ivLen ≠ e.nonceSize ∨ tagLen < e.tagBytes then err .generic
    else ok ()
  else
    if !aesKeyOk (keyLen - keyLen / 2) then err .generic
    else if ivLen ≠ e.nonceSize ∨ tagLen < e.tagBytes then err .generic
    else if ctLen + tagLen < keyLen / 2 then err .generic   -- cbcAEAD.Open: shorter than its tag
    else if !aesKeyOk (keyLen / 2) then .panic      -- hash == nil: hmac.New(nil, …) in computeAuthTag
    else ok ()

/-- The same before the repair of F15: no length check — a wrong nonce length reaches
`cipher.NewGCM(...).Open` (documented panic); CBC-HMAC compares the tag first, so a wrong IV length
only panics (in `NewCBCDecrypter`) when the tag matches. -/
def precheckUnrepaired (e : Enc) (keyLen ivLen ctLen tagLen : Nat) : Res Unit :=
  if e.isGcm then
    if !aesKeyOk keyLen then err .generic
    else if ivLen ≠ 12 then .panic
    else ok ()
  else
    if !aesKeyOk (keyLen - keyLen / 2) then err .generic
    else if ctLen + tagLen < keyLen / 2 then err .generic
    else if !aesKeyOk (keyLen / 2) then .panic
    else ok ()

/-- `Decrypt`'s failure flag. `opened` = result of the AEAD's `Open` (`some pt` on success).
Repaired: success is the absence of an error. Before (F19): `plaintext == nil` was the flag and
`Open` returns nil for an empty plaintext. -/
def decryptResult (opened : Option Bytes) : Res Bytes :=
  match opened with
  | some pt => ok pt
  | none => err .generic

def decryptResultUnrepaired (opened : Option Bytes) : Res Bytes :=
  match opened with
  | some [] => err .generic
  | some pt => ok pt
  | none => err .generic

/-! ## symbolic JWS / JWE (signing.go Sign/Verify; crypter.go EncryptWithAuthData/Decrypt)

The primitives are parameters; only what the library does around them is modelled: which octets
are fed to the primitive (signing input over the protected octets as received; AAD), the `r ‖ s`
split for ECDSA, the PKCS#7/CBC-HMAC composition, the compact text, the failure flag. -/

/-- A signature primitive (HMAC, RSASSA-PKCS1, RSASSA-PSS, or ECDSA after the `r ‖ s` decoding). -/
structure SigPrim (SK PK : Type) where
  pub : SK → PK
  sign : SK → List Char → Bytes
  verify : PK → List Char → Bytes → Bool

/-- One signature of a JWS: the protected header octets, the payload and the signature octets. -/
structure Jws where
  prot : Bytes
  payload : Bytes
  sig : Bytes
  deriving DecidableEq, Repr

/-- `Sign`: the signature is computed over `b64(protected) "." b64(payload)`. -/
def jwsSign {SK PK : Type} (P : SigPrim SK PK) (sk : SK) (prot payload : Bytes) : Jws :=
  { prot := prot, payload := payload, sig := P.sign sk (signingInput prot payload) }

/-- `Verify`: recompute the signing input from the octets AS RECEIVED and ask the primitive. -/
def jwsVerify {SK PK : Type} (P : SigPrim SK PK) (pk : PK) (o : Jws) : Res Bytes :=
  if P.verify pk (signingInput o.prot o.payload) o.sig then ok o.payload else err .generic

def jwsCompact (o : Jws) : List Char := compactSerialize [o.prot, o.payload, o.sig]

def jwsParse (s : List Char) : Res Jws :=
  match compactParse 3 s with
  | .ok [a, b, c] => ok { prot := a, payload := b, sig := c }
  | .ok _ => err .generic
  | .err k => err k
  | .panic => .panic

/-- One entry of the `signatures` array of a JWS in JSON serialisation: its own protected header and
signature octets (kept as received: `Signature.original`). -/
structure SigEntry where
  prot : Bytes
  sig : Bytes
  deriving DecidableEq, Repr

/-- A multi-signature JWS: one payload, several signatures. -/
structure JwsMulti where
  payload : Bytes
  sigs : List SigEntry
  deriving DecidableEq, Repr

/-- `MultiSigner.Sign`: every recipient signs `b64(its protected) "." b64(payload)`. -/
def jwsSignMulti {SK PK : Type} (P : SigPrim SK PK) (signers : List (SK × Bytes)) (payload : Bytes) : JwsMulti :=
  { payload := payload,
    sigs := signers.map fun s => { prot := s.2, sig := P.sign s.1 (signingInput s.2 payload) } }

/-- `JsonWebSignature.Verify`: loop over the signatures; each is checked against the signing input built
from ITS OWN protected octets as received; the first that verifies returns the payload. -/
def jwsVerifyMulti {SK PK : Type} (P : SigPrim SK PK) (pk : PK) (o : JwsMulti) : Res Bytes :=
  if o.sigs.any (fun e => P.verify pk (signingInput e.prot o.payload) e.sig) then ok o.payload else err .generic

/-- ECDSA: the primitive works on `(r, s)`; the library splits the fixed-width octets. -/
def ecVerify {PK : Type} (size : Nat) (verifyRS : PK → List Char → Nat → Nat → Bool) (pk : PK)
    (m : List Char) (sig : Bytes) : Bool :=
  match ecSigDecode size sig with
  | .ok (r, s) => verifyRS pk m r s
  | _ => false

/-- An AEAD (AES-GCM, or the library's CBC-HMAC composition seen from outside). -/
structure AeadPrim where
  sealF : (key iv pt aad : Bytes) → Bytes × Bytes          -- ciphertext, tag
  openF : (key iv ct tag aad : Bytes) → Option Bytes

/-- A key-management mode (RSA, key wrap, GCM key wrap, ECDH-ES, direct), seen as wrap/unwrap of the CEK. -/
structure KeyMgmt (EK DK : Type) where
  pub : DK → EK
  wrap : EK → Bytes → Bytes
  unwrap : DK → Bytes → Option Bytes

/-- Compression (`zip`): `none` or DEFLATE, as a pair of functions. -/
structure Zip where
  deflate : Bytes → Bytes
  inflate : Bytes → Option Bytes

structure Jwe where
  prot : Bytes
  ek : Bytes
  iv : Bytes
  ct : Bytes
  tag : Bytes
  aad : Option Bytes
  deriving DecidableEq, Repr

/-- `EncryptWithAuthData` for one recipient (repaired F21: an empty AAD is no AAD). -/
def normAad (aad : Option Bytes) : Option Bytes :=
  match aad with
  | some [] => none
  | a => a

def zipApply (z : Option Zip) (pt : Bytes) : Bytes :=
  match z with
  | some z => z.deflate pt
  | none => pt

def jweEncrypt {EK DK : Type} (A : AeadPrim) (K : KeyMgmt EK DK) (z : Option Zip) (ekey : EK)
    (cek iv prot pt : Bytes) (aad : Option Bytes) : Jwe :=
  let c := A.sealF cek iv (zipApply z pt) (bytesOfText (aadInput prot (normAad aad)))
  { prot := prot, ek := K.wrap ekey cek, iv := iv, ct := c.1, tag := c.2, aad := normAad aad }
where bytesOfText (t : List Char) : Bytes := t.map (fun c => UInt8.ofNat c.toNat)

/-- `Decrypt` for one recipient: unwrap the CEK, `Open` with the AAD recomputed from the protected
octets AS RECEIVED, success = no error (repaired F19), then inflate if `zip` is set. -/
def jweDecrypt {EK DK : Type} (A : AeadPrim) (K : KeyMgmt EK DK) (z : Option Zip) (dkey : DK) (o : Jwe) : Res Bytes :=
  match K.unwrap dkey o.ek with
  | none => err .generic
  | some cek =>
    match decryptResult (A.openF cek o.iv o.ct o.tag (jweEncrypt.bytesOfText (aadInput o.prot o.aad))) with
    | .ok pt =>
      (match z with
       | none => ok pt
       | some z => match z.inflate pt with
         | some x => ok x
         | none => err .generic)
    | .err k => err k
    | .panic => .panic

/-- A multi-recipient JWE (general JSON serialisation): ONE content encryption (protected header, IV,
ciphertext, tag, AAD), and one encrypted key per recipient, in the order of the `recipients` array. -/
structure JweMulti where
  prot : Bytes
  iv : Bytes
  ct : Bytes
  tag : Bytes
  aad : Option Bytes
  eks : List Bytes
  deriving DecidableEq, Repr

/-- `MultiEncrypter.Encrypt`: the CEK is wrapped once for every recipient key. -/
def jweEncryptMulti {EK DK : Type} (A : AeadPrim) (K : KeyMgmt EK DK) (z : Option Zip) (ekeys : List EK)
    (cek iv prot pt : Bytes) (aad : Option Bytes) : JweMulti :=
  let c := A.sealF cek iv (zipApply z pt) (jweEncrypt.bytesOfText (aadInput prot (normAad aad)))
  { prot := prot, iv := iv, ct := c.1, tag := c.2, aad := normAad aad, eks := ekeys.map (K.wrap · cek) }

/-- The recipient loop of `JsonWebEncryption.Decrypt`: for every entry in order, unwrap with the caller's
key; if that gives a CEK try the content decryption; the FIRST entry for which both succeed ends the loop.
A CEK that does not open the content (RSA1_5 hands back a random one for a foreign entry, by design) is
not the end: the loop goes on with the next entry. No entry succeeded: `ErrCryptoFailure`. -/
def jweDecryptLoop {EK DK : Type} (A : AeadPrim) (K : KeyMgmt EK DK) (dkey : DK) (o : JweMulti) : List Bytes → Res Bytes
  | [] => err .generic
  | ek :: rest =>
    match K.unwrap dkey ek with
    | none => jweDecryptLoop A K dkey o rest
    | some cek =>
      match decryptResult (A.openF cek o.iv o.ct o.tag (jweEncrypt.bytesOfText (aadInput o.prot o.aad))) with
      | .ok pt => ok pt
      | .err _ => jweDecryptLoop A K dkey o rest
      | .panic => .panic

def jweDecryptMulti {EK DK : Type} (A : AeadPrim) (K : KeyMgmt EK DK) (z : Option Zip) (dkey : DK) (o : JweMulti) : Res Bytes :=
  match jweDecryptLoop A K dkey o o.eks with
  | .ok pt =>
    (match z with
     | none => ok pt
     | some z => match z.inflate pt with
       | some x => ok x
       | none => err .generic)
  | .err k => err k
  | .panic => .panic

def jweCompact (o : Jwe) : List Char := compactSerialize [o.prot, o.ek, o.iv, o.ct, o.tag]

def jweParse (s : List Char) : Res Jwe :=
  match compactParse 5 s with
  | .ok [a, b, c, d, e] => ok { prot := a, ek := b, iv := c, ct := d, tag := e, aad := none }
  | .ok _ => err .generic
  | .err k => err k
  | .panic => .panic

/-- The library's CBC-HMAC AEAD (cipher/cbc_hmac.go) over a CBC mode and a MAC given as parameters:
`Seal` = pad, CBC-encrypt, tag = first `t` bytes of MAC(tagInput); `Open` = compare tag, CBC-decrypt,
unpad. -/
structure CbcPrims where
  cbcEnc : (key iv pt : Bytes) → Bytes
  cbcDec : (key iv ct : Bytes) → Bytes
  mac : (key msg : Bytes) → Bytes          -- already truncated to the tag length

def cbcSeal (P : CbcPrims) (encKey macKey iv pt aad : Bytes) : Bytes × Bytes :=
  let ct := P.cbcEnc encKey iv (pad 16 pt)
  (ct, P.mac macKey (tagInput aad iv ct))

def cbcOpen (P : CbcPrims) (encKey macKey iv ct tag aad : Bytes) : Res Bytes :=
  if P.mac macKey (tagInput aad iv ct) ≠ tag then err .generic
  else if ct.length % 16 ≠ 0 then err .generic
  else unpad 16 (P.cbcDec encKey iv ct)

end Oryx.Jose
