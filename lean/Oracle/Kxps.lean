import Oryx.Base.Text
import Oryx.Model.Kxps
namespace Oracle.Kxps
open Oryx Oryx.Kxps

/-
  kxps.run <rps|kbps> <op>…   one reply field per op, joined by `;`
    S            Start (flag only)              → `-`
    C            Close                          → `-`
    s:<ns>:<cnt> doSample(time.Unix(0,ns)) while the source reads cnt
                                                → `<num>/<den>:<count>:<last>` for r10s,r30s,r300s joined by `,`
    a:<ns>:<cnt> sampleAverage(now) (hook: unguarded, unscaled) → `<num>/<den>`
    A:<ns>:<cnt> public Average() at that time  → `<num>/<den>` | `panic`
    g            public 10s/30s/300s getters    → three (`<num>/<den>` | `panic`) joined by `,`
-/

def rateStr (r : Rate) : String := s!"{r.num}/{r.den}"
def sampleStr (s : Sample) : String := s!"{rateStr s.rate}:{s.count}:{s.last}"
def stateStr (m : Meter) : String := ",".intercalate [sampleStr m.r10s, sampleStr m.r30s, sampleStr m.r300s]

def resStr : Res Rate → String
  | .ok r => rateStr r
  | .err _ => "err"
  | .panic => "panic"

def getters (kbps : Bool) (m : Meter) : String :=
  let rs := if kbps then [m.kbps10s, m.kbps30s, m.kbps300s] else [m.rps10s, m.rps30s, m.rps300s]
  ",".intercalate (rs.map resStr)

def step (kbps : Bool) (m : Meter) (op : String) : Option (Meter × String) :=
  match op.splitOn ":" with
  | ["S"] => some (m.start, "-")
  | ["C"] => some (m.close, "-")
  | ["g"] => some (m, getters kbps m)
  | ["s", t, c] => do
    let t ← t.toInt?; let c ← c.toNat?
    let m' := m.doSample t (c % two64)
    pure (m', stateStr m')
  | ["a", t, c] => do
    let t ← t.toInt?; let c ← c.toNat?
    let (m', r) := m.sampleAverage t (c % two64)
    pure (m', rateStr r)
  | ["A", t, c] => do
    let t ← t.toInt?; let c ← c.toNat?
    let (m', r) := if kbps then m.kbpsAverage t (c % two64) else m.rpsAverage t (c % two64)
    pure (m', resStr r)
  | _ => none

def runOps (kbps : Bool) : Meter → List String → List String → Option (List String)
  | _, [], acc => some acc.reverse
  | m, op :: ops, acc => do
    let (m', out) ← step kbps m op
    runOps kbps m' ops (out :: acc)

def handle (op : String) (args : List String) : Option String :=
  match op, args with
  | "kxps.run", kind :: ops =>
    if kind != "rps" && kind != "kbps" then none else do
    let outs ← runOps (kind == "kbps") Meter.new ops []
    pure (if outs.isEmpty then "-" else ";".intercalate outs)
  | "kxps.diff64", [a, b] => do
    let a ← a.toNat?; let b ← b.toNat?; pure (toString (diff64 a b))
  | _, _ => none

end Oracle.Kxps
