import Oryx.Base.Text
import Oryx.Model.Logger
namespace Oracle.Logger
open Oryx Oryx.Logger
open Oryx.Gen.Logger (CidAlloc)

def charsOfHex (s : String) : Option (List Char) :=
  if s == "-" || s == "_" then some [] else do
    let b ← parseBytes s
    let str ← String.fromUTF8? (ByteArray.mk b.toArray)
    pure str.toList

def hexOfChars (cs : List Char) : String := toHex (String.ofList cs).toUTF8.toList

def parseLevel : String → Option Level
  | "info" => some .info | "trace" => some .trace | "warn" => some .warn | "error" => some .error
  | _ => none

def parseCtx (s : String) : Option Ctx :=
  match s.splitOn ":" with
  | ["nil"] => some .nil
  | ["ctxnone"] => some .ctxWithout
  | ["other"] => some .other
  | ["obj", c] => c.toInt?.map .obj
  | ["ctx", c] => c.toInt?.map .ctxWith
  | _ => none

def parseCall (s : String) : Option Call :=
  match s.splitOn ":" with
  | ["ln", ops] =>
    if ops == "_" then some (.println [])
    else (ops.splitOn ",").mapM charsOfHex |>.map .println
  | ["f", m] => (charsOfHex m).map .printf
  | _ => none

def prefixStr : Prefix → String
  | .none => "none"
  | .pid p => s!"pid {p}"
  | .pidCid p c => s!"pidcid {p} {c}"
  | .bad => "bad"

def parseMode : String → Option CidAlloc
  | "plainRMW" => some .plainRMW | "atomicAdd" => some .atomicAdd | "mutexed" => some .mutexed
  | "current" => some Gen.Logger.cidAlloc
  | _ => none

def modeStr : CidAlloc → String
  | .plainRMW => "plainRMW" | .atomicAdd => "atomicAdd" | .mutexed => "mutexed"

def parseOp (s : String) : Option Op :=
  match s.toList with
  | 'a' :: r => (String.ofList r).toNat?.map .add
  | 'l' :: r => (String.ofList r).toNat?.map .load
  | 's' :: r => (String.ofList r).toNat?.map .store
  | 'x' :: r =>
    match (String.ofList r).splitOn ":" with
    | [g, src] => do let g ← g.toNat?; let src ← src.toNat?; pure (.alias g src)
    | _ => none
  | _ => none

def pairsStr (l : List (Nat × Nat)) : String :=
  if l.isEmpty then "_" else ",".intercalate (l.map fun p => s!"{p.1}:{p.2}")

def handle (op : String) (args : List String) : Option String :=
  match op, args with
  | "logger.line", [lvl, ts, pid, ctx, call] => do
    let lvl ← parseLevel lvl; let ts ← charsOfHex ts; let pid ← pid.toNat?
    let ctx ← parseCtx ctx; let call ← parseCall call
    pure (hexOfChars (formatLine lvl ts pid ctx call))
  | "logger.emit", [lvl, ts, pid, ctx, call] => do
    let lvl ← parseLevel lvl; let ts ← charsOfHex ts; let pid ← pid.toNat?
    let ctx ← parseCtx ctx; let call ← parseCall call
    pure (hexOfChars (emit lvl ts pid ctx call))
  | "logger.parse", [line] => do
    let l ← charsOfHex line
    pure (prefixStr (parseCid l))
  | "logger.mode", [] => pure (modeStr Gen.Logger.cidAlloc)
  | "logger.run", [mode, base, ops] => do
    -- `base`: the value of the process counter when the trace starts (the model starts at cidInitial)
    let m ← parseMode mode; let base ← base.toNat?
    let ops ← if ops == "_" then some [] else (ops.splitOn ",").mapM parseOp
    match run m { St.init with counter := base } ops with
    | none => pure "disabled"
    | some s => pure s!"counter={s.counter} issued={pairsStr s.issued} aliases={pairsStr s.aliases} nodup={decide s.ids.Nodup}"
  | _, _ => none

end Oracle.Logger
