import Oryx.Base.Text
import Oryx.Model.Rtmp
namespace Oracle.Rtmp
open Oryx Oryx.Rtmp

/-- `cid.ty.sid.ts.PAYLOAD` -/
def msgStr (m : Msg) : String :=
  s!"{m.hdr.cid}.{m.hdr.ty}.{m.hdr.sid}.{m.hdr.ts}.{toHex m.payload}"

def msgsStr (l : List Msg) : String := if l.isEmpty then "_" else ",".intercalate (l.map msgStr)

def parseMsg (s : String) : Option Msg :=
  match s.splitOn "." with
  | [c, t, sid, ts, p] => do
    let c ← c.toNat?; let t ← t.toNat?; let sid ← sid.toNat?; let ts ← ts.toNat?; let p ← parseBytes p
    pure { hdr := { cid := c, ty := t, sid := sid, ts := ts }, payload := p }
  | _ => none

def parseMsgs (s : String) : Option (List Msg) :=
  if s == "_" then some [] else (s.splitOn ",").mapM parseMsg

/-- Read up to `k` messages; report those read, the final status and the reader's chunk size. -/
def readUpTo : Nat → Reader → Bytes → List Msg → (List Msg × String × Reader × Nat)
  | 0, st, bs, acc => (acc.reverse, "ok", st, bs.length)
  | k+1, st, bs, acc =>
    match readMessage st bs with
    | .ok ((m, st), bs) => readUpTo k st bs (m :: acc)
    | .err e => (acc.reverse, e.str, st, bs.length)
    | .panic => (acc.reverse, "panic", st, bs.length)

def handle (op : String) (args : List String) : Option String :=
  match op, args with
  | "rtmp.write", [c, ms] => do
    let c ← c.toNat?; let ms ← parseMsgs ms
    pure ((writeAll c ms).str toHex)
  | "rtmp.outchunk", [c, ms] => do
    let c ← c.toNat?; let ms ← parseMsgs ms
    pure (toString (ms.foldl outChunkAfter c))
  | "rtmp.read", [c, k, wire] => do
    let c ← c.toNat?; let k ← k.toNat?; let wire ← parseBytes wire
    let (ms, status, st, left) := readUpTo k { inChunk := c } wire []
    pure s!"{msgsStr ms} {status} {st.inChunk} {left}"
  | "rtmp.c0", [m] => do let m ← parseMsg m; pure (toHex (c0Header m))
  | "rtmp.c3", [m] => do let m ← parseMsg m; pure (toHex (c3Header m))
  | "rtmp.hs.read", [wire] => do
    let wire ← parseBytes wire
    let r : Res (Bytes × Bytes × Bytes × Bytes) := do
      let (c0, bs) ← hsReadC0 wire
      let (c1, bs) ← hsReadC1 bs
      let (c2, bs) ← hsReadC2 bs
      pure (c0, c1, c2, bs)
    pure (r.str fun (c0, c1, c2, bs) => s!"{toHex c0} {c1.length} {c2.length} {bs.length}")
  | _, _ => none

end Oracle.Rtmp
