import Oryx.Base.Text
import Oryx.Model.Rtmp
import Oryx.Spec.RtmpChunk
namespace Oracle.Rtmp
open Oryx Oryx.Rtmp

/-- `cid.ty.sid.ts.PAYLOAD` -/
def msgStr (m : Msg) : String :=
  s!"{m.hdr.cid}.{m.hdr.ty}.{m.hdr.sid}.{m.hdr.ts}.{toHex m.payload}"

def msgsStr (l : List Msg) : String := if l.isEmpty then "_" else ",".intercalate (l.map msgStr)

def parseMsg (s : String) : Option Msg :=
  match s.splitOn "." with
  | [c, t, sid, ts, p] => do
    let c ← c.toNat?; let t ← t.toNat?; let sid ← sid.toNat?; let ts ← ts.toNat?; let p ← parseBytes p
    pure { hdr := { cid := c, ty := t, sid := sid, ts := ts }, payload := p }
  | _ => none

def parseMsgs (s : String) : Option (List Msg) :=
  if s == "_" then some [] else (s.splitOn ",").mapM parseMsg

/-- Read up to `k` messages; report those read, the final status and the reader's chunk size. -/
def readUpTo : Nat → Reader → Bytes → List Msg → (List Msg × String × Reader × Nat)
  | 0, st, bs, acc => (acc.reverse, "ok", st, bs.length)
  | k+1, st, bs, acc =>
    match readMessage st bs with
    | .ok ((m, st), bs) => readUpTo k st bs (m :: acc)
    | .err e => (acc.reverse, e.str, st, bs.length)
    | .panic => (acc.reverse, "panic", st, bs.length)

/-! ### C02: abstract chunker (Spec.RtmpChunk). Event = `cid.form.fmt.tsField.len.ty.sid.DATA`, trace = events joined by `,` (`_` = empty). -/

open Oryx.Spec.RtmpChunk in
def parseEv (s : String) : Option ChunkEv :=
  match s.splitOn "." with
  | [cid, form, fmt, ts, len, ty, sid, d] => do
    let cid ← cid.toNat?; let form ← form.toNat?; let fmt ← fmt.toNat?; let ts ← ts.toNat?
    let len ← len.toNat?; let ty ← ty.toNat?; let sid ← sid.toNat?; let d ← parseBytes d
    pure { cid := cid, bhForm := form, fmt := fmt, tsField := ts, len := len, ty := ty, sid := sid, data := d }
  | _ => none

open Oryx.Spec.RtmpChunk in
def parseTrace (s : String) : Option (List ChunkEv) :=
  if s == "_" then some [] else (s.splitOn ",").mapM parseEv

open Oryx.Spec.RtmpChunk in
def specMsgsStr (l : List Message) : String :=
  if l.isEmpty then "_" else ",".intercalate (l.map fun m => s!"{m.cid}.{m.ty}.{m.sid}.{m.ts}.{toHex m.payload}")

/-- One pass over the trace with `Spec.RtmpChunk.step`: messages of the longest prefix the sender rules
accept (= `specMessages` when the whole trace is conformant), its length, and along that prefix
`NoExtendedDelta` (no event with `UsesExtDelta`) and "the last accepted event completed a message". -/
def specPrefix : Spec.RtmpChunk.Sender → List Spec.RtmpChunk.ChunkEv → List Spec.RtmpChunk.Message → Nat → Bool → Bool →
    (List Spec.RtmpChunk.Message × Nat × Bool × Bool)
  | _, [], acc, n, noExt, ends => (acc.reverse, n, noExt, ends)
  | s, e :: tr, acc, n, noExt, ends =>
    match Spec.RtmpChunk.step false s e with
    | none => (acc.reverse, n, noExt && !decide (Spec.RtmpChunk.UsesExtDelta s e), ends)
    | some (s', out) =>
      specPrefix s' tr (match out with | some m => m :: acc | none => acc) (n + 1)
        (noExt && !decide (Spec.RtmpChunk.UsesExtDelta s e)) out.isSome

def b01 (b : Bool) : String := if b then "1" else "0"

def handle (op : String) (args : List String) : Option String :=
  match op, args with
  -- wire bytes, messages of the longest conformant prefix (= specMessages when conformant),
  -- events accepted / total, NoExtendedDelta, EndsComplete, Strict
  | "rtmp.spec.chunk", [tr] => do
    let tr ← parseTrace tr
    let (ms, n, noExt, ends) := specPrefix {} tr [] 0 true true
    -- last field: NOT the specification — the messages under the "extended timestamp is always absolute"
    -- reading (K2), `=` when they are the spec's
    let abs := Spec.RtmpChunk.messagesAbsExt tr
    let absS := if n != tr.length then "-" else if abs == ms then "=" else specMsgsStr abs
    pure s!"{toHex (Spec.RtmpChunk.specBytes tr)} {specMsgsStr ms} {n}/{tr.length} {b01 noExt} {b01 (ends && n == tr.length)} {b01 (decide (Spec.RtmpChunk.Strict tr))} {absS}"
  -- the same through the definitions the theorems use (slower: one run per predicate); for cross-checking
  | "rtmp.spec.defs", [tr] => do
    let tr ← parseTrace tr
    pure s!"{specMsgsStr (Spec.RtmpChunk.specMessages tr)} {b01 (decide (Spec.RtmpChunk.Conformant tr))} {b01 (decide (Spec.RtmpChunk.NoExtendedDelta tr))} {b01 (decide (Spec.RtmpChunk.EndsComplete tr))} {b01 (decide (Spec.RtmpChunk.Strict tr))}"
  -- the model reader on the wire bytes of a trace (saves sending the wire back)
  | "rtmp.spec.read", [k, tr] => do
    let k ← k.toNat?; let tr ← parseTrace tr
    let (ms, status, st, left) := readUpTo k {} (Spec.RtmpChunk.specBytes tr) []
    pure s!"{msgsStr ms} {status} {st.inChunk} {left}"
  | "rtmp.write", [c, ms] => do
    let c ← c.toNat?; let ms ← parseMsgs ms
    pure ((writeAll c ms).str toHex)
  | "rtmp.outchunk", [c, ms] => do
    let c ← c.toNat?; let ms ← parseMsgs ms
    pure (toString (ms.foldl outChunkAfter c))
  | "rtmp.read", [c, k, wire] => do
    let c ← c.toNat?; let k ← k.toNat?; let wire ← parseBytes wire
    let (ms, status, st, left) := readUpTo k { inChunk := c } wire []
    pure s!"{msgsStr ms} {status} {st.inChunk} {left}"
  | "rtmp.c0", [m] => do let m ← parseMsg m; pure (toHex (c0Header m))
  | "rtmp.c3", [m] => do let m ← parseMsg m; pure (toHex (c3Header m))
  | "rtmp.hs.read", [wire] => do
    let wire ← parseBytes wire
    let r : Res (Bytes × Bytes × Bytes × Bytes) := do
      let (c0, bs) ← hsReadC0 wire
      let (c1, bs) ← hsReadC1 bs
      let (c2, bs) ← hsReadC2 bs
      pure (c0, c1, c2, bs)
    pure (r.str fun (c0, c1, c2, bs) => s!"{toHex c0} {c1.length} {c2.length} {bs.length}")
  | _, _ => none

end Oracle.Rtmp
