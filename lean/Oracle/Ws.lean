/-
  Oracle ops `ws.*` over Spec.Ws / Model.WsRead / Model.WsWrite and `wsconc.*` over Model.WsConc.

  Frame text form (one token, fields separated by `.`):
      fin.rsv.opcode.masked.key.lenForm.len.payload
  fin, masked ∈ {0,1}; rsv = 4·RSV1 + 2·RSV2 + RSV3; key/payload are byte fields (`-`, hex, `p:n:seed`);
  a frame list is comma separated, the empty list is `_`.
-/
import Oryx.Base.Text
import Oryx.Spec.Ws
import Oryx.Model.WsRead
namespace Oracle.Ws
open Oryx Oryx.Spec.Ws

def b01 (b : Bool) : String := if b then "1" else "0"
def p01 (s : String) : Option Bool := if s == "1" then some true else if s == "0" then some false else none

def frameStr (f : Frame) : String :=
  s!"{b01 f.fin}.{4 * b2n f.rsv1 + 2 * b2n f.rsv2 + b2n f.rsv3}.{f.opcode}.{b01 f.masked}.{toHex f.key}.{f.lenForm}.{f.len}.{toHex f.payload}"

def framesStr (fs : List Frame) : String :=
  if fs.isEmpty then "_" else ",".intercalate (fs.map frameStr)

def parseFrameTok (s : String) : Option Frame :=
  match s.splitOn "." with
  | [fin, rsv, op, m, key, form, len, pl] => do
    let fin ← p01 fin; let rsv ← rsv.toNat?; let op ← op.toNat?; let m ← p01 m
    let key ← parseBytes key; let form ← form.toNat?; let len ← len.toNat?; let pl ← parseBytes pl
    pure { fin := fin, rsv1 := rsv / 4 % 2 = 1, rsv2 := rsv / 2 % 2 = 1, rsv3 := rsv % 2 = 1,
           opcode := op, masked := m, key := key, lenForm := form, len := len, payload := pl }
  | _ => none

def parseFrames (s : String) : Option (List Frame) :=
  if s == "_" then some [] else (s.splitOn ",").mapM parseFrameTok

def parseRole (s : String) : Option Role :=
  if s == "c" then some .client else if s == "s" then some .server else none

def msgStr (ty : Nat) (c : Bool) (d : Bytes) : String := s!"{ty}.{b01 c}.{toHex d}"

def listStr (l : List String) : String := if l.isEmpty then "_" else ",".intercalate l

def replyStr (r : Nat × Bytes) : String := s!"{r.1}.{toHex r.2}"

def endStr : End → String
  | .more => "more"
  | .fail st => s!"fail.{st}"
  | .closed c r => s!"closed.{c}.{toHex r}"

def rerrStr : WsRead.RErr → String
  | .proto => "proto"
  | .limit => "limit"
  | .close c t => s!"close.{c}.{toHex t}"
  | .ueof => "ueof"
  | .eof => "eof"
  | .internal => "internal"

def perrStr : PErr → String
  | .incomplete => "incomplete"
  | .bad w => "bad " ++ w

/-- Is the read error sticky: two more `ReadMessage` calls fail with the same error and write nothing. -/
def stickyCheck (t : WsRead.Trace) : Bool :=
  match WsRead.readMessage t.final with
  | .fail e s1 =>
    e == t.err && s1.replies == t.final.replies &&
    (match WsRead.readMessage s1 with
     | .fail e2 s2 => e2 == t.err && s2.replies == t.final.replies
     | _ => false)
  | _ => false

def handle1 (op : String) (args : List String) : Option String :=
  match op, args with
  | "ws.ser", [fs] => do let fs ← parseFrames fs; pure (toHex (serialiseAll fs))
  | "ws.parseall", [h] => do
    let b ← parseBytes h
    match parseAll b with
    | .ok fs => pure ("ok " ++ framesStr fs)
    | .error e => pure (perrStr e)
  | "ws.parse", [role, deflate, h] => do
    let role ← parseRole role; let d ← p01 deflate; let b ← parseBytes h
    match parse role d b with
    | .ok fs => pure ("ok " ++ framesStr fs)
    | .error e => pure (perrStr e)
  | "ws.recv", [role, deflate, cap, fs] => do
    let role ← parseRole role; let d ← p01 deflate; let cap ← cap.toNat?; let fs ← parseFrames fs
    let r := recv role d cap fs
    pure s!"msgs={listStr (r.msgs.map fun m => msgStr m.ty m.compressed m.data)} replies={listStr (r.replies.map replyStr)} end={endStr r.fin}"
  | "ws.read", [role, deflate, limit, h] => do
    let role ← parseRole role; let d ← p01 deflate; let limit ← limit.toInt?; let b ← parseBytes h
    match WsRead.session (WsRead.init (role == .server) d limit b) with
    | none => pure "panic"
    | some t =>
      pure s!"msgs={listStr (t.msgs.map fun m => msgStr m.ty m.compressed m.data)} err={rerrStr t.err} partial={t.partialLen} replies={listStr (t.final.replies.map replyStr)} sticky={b01 (stickyCheck t)}"
  | "ws.utf8", [h] => do
    let b ← parseBytes h
    pure s!"{b01 (utf8Valid b)} {b01 (WsRead.utf8Valid b)}"
  | "ws.closecode", [c] => do
    let c ← c.toNat?
    pure s!"{b01 (validCloseCode c)} {b01 (WsRead.isValidReceivedCloseCode c)}"
  | _, _ => none

def handle (op : String) (args : List String) : Option String :=
  match op, args with
  | "ws.c14", [role, deflate, limit, fs] => do
    -- one round trip for the C14 driver: wire image | spec receiver | reader model
    let r ← handle1 "ws.recv" [role, deflate, (if limit == "0" then toString (2 ^ 63 - 1 : Nat) else limit), fs]
    let w ← handle1 "ws.ser" [fs]
    let m ← handle1 "ws.read" [role, deflate, limit, w]
    pure s!"{w}|{r}|{m}"
  | _, _ => handle1 op args

end Oracle.Ws
