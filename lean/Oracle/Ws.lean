/-
  Oracle ops `ws.*` over Spec.Ws / Model.WsRead / Model.WsWrite and `wsconc.*` over Model.WsConc.

  Frame text form (one token, fields separated by `.`):
      fin.rsv.opcode.masked.key.lenForm.len.payload
  fin, masked ∈ {0,1}; rsv = 4·RSV1 + 2·RSV2 + RSV3; key/payload are byte fields (`-`, hex, `p:n:seed`);
  a frame list is comma separated, the empty list is `_`.
-/
import Oryx.Base.Text
import Oryx.Spec.Ws
import Oryx.Model.WsRead
import Oryx.Model.WsWrite
import Oryx.Model.WsConc
namespace Oracle.Ws
open Oryx Oryx.Spec.Ws

def b01 (b : Bool) : String := if b then "1" else "0"
def p01 (s : String) : Option Bool := if s == "1" then some true else if s == "0" then some false else none

def frameStr (f : Frame) : String :=
  s!"{b01 f.fin}.{4 * b2n f.rsv1 + 2 * b2n f.rsv2 + b2n f.rsv3}.{f.opcode}.{b01 f.masked}.{toHex f.key}.{f.lenForm}.{f.len}.{toHex f.payload}"

def framesStr (fs : List Frame) : String :=
  if fs.isEmpty then "_" else ",".intercalate (fs.map frameStr)

def parseFrameTok (s : String) : Option Frame :=
  match s.splitOn "." with
  | [fin, rsv, op, m, key, form, len, pl] => do
    let fin ← p01 fin; let rsv ← rsv.toNat?; let op ← op.toNat?; let m ← p01 m
    let key ← parseBytes key; let form ← form.toNat?; let len ← len.toNat?; let pl ← parseBytes pl
    pure { fin := fin, rsv1 := rsv / 4 % 2 = 1, rsv2 := rsv / 2 % 2 = 1, rsv3 := rsv % 2 = 1,
           opcode := op, masked := m, key := key, lenForm := form, len := len, payload := pl }
  | _ => none

def parseFrames (s : String) : Option (List Frame) :=
  if s == "_" then some [] else (s.splitOn ",").mapM parseFrameTok

def parseRole (s : String) : Option Role :=
  if s == "c" then some .client else if s == "s" then some .server else none

def msgStr (ty : Nat) (c : Bool) (d : Bytes) : String := s!"{ty}.{b01 c}.{toHex d}"

def listStr (l : List String) : String := if l.isEmpty then "_" else ",".intercalate l

def replyStr (r : Nat × Bytes) : String := s!"{r.1}.{toHex r.2}"

def endStr : End → String
  | .more => "more"
  | .fail st => s!"fail.{st}"
  | .closed c r => s!"closed.{c}.{toHex r}"

def rerrStr : WsRead.RErr → String
  | .proto => "proto"
  | .limit => "limit"
  | .close c t => s!"close.{c}.{toHex t}"
  | .ueof => "ueof"
  | .eof => "eof"
  | .internal => "internal"

def perrStr : PErr → String
  | .incomplete => "incomplete"
  | .bad w => "bad " ++ w

/-- Is the read error sticky: two more `ReadMessage` calls fail with the same error and write nothing. -/
def stickyCheck (t : WsRead.Trace) : Bool :=
  match WsRead.readMessage t.final with
  | .fail e s1 =>
    e == t.err && s1.replies == t.final.replies &&
    (match WsRead.readMessage s1 with
     | .fail e2 s2 => e2 == t.err && s2.replies == t.final.replies
     | _ => false)
  | _ => false

def handle1 (op : String) (args : List String) : Option String :=
  match op, args with
  | "ws.ser", [fs] => do let fs ← parseFrames fs; pure (toHex (serialiseAll fs))
  | "ws.parseall", [h] => do
    let b ← parseBytes h
    match parseAll b with
    | .ok fs => pure ("ok " ++ framesStr fs)
    | .error e => pure (perrStr e)
  | "ws.parse", [role, deflate, h] => do
    let role ← parseRole role; let d ← p01 deflate; let b ← parseBytes h
    match parse role d b with
    | .ok fs => pure ("ok " ++ framesStr fs)
    | .error e => pure (perrStr e)
  | "ws.recv", [role, deflate, cap, fs] => do
    let role ← parseRole role; let d ← p01 deflate; let cap ← cap.toNat?; let fs ← parseFrames fs
    let r := recv role d cap fs
    pure s!"msgs={listStr (r.msgs.map fun m => msgStr m.ty m.compressed m.data)} replies={listStr (r.replies.map replyStr)} end={endStr r.fin}"
  | "ws.read", [role, deflate, limit, h] => do
    let role ← parseRole role; let d ← p01 deflate; let limit ← limit.toInt?; let b ← parseBytes h
    match WsRead.session (WsRead.init (role == .server) d limit b) with
    | none => pure "panic"
    | some t =>
      pure s!"msgs={listStr (t.msgs.map fun m => msgStr m.ty m.compressed m.data)} err={rerrStr t.err} partial={t.partialLen} replies={listStr (t.final.replies.map replyStr)} sticky={b01 (stickyCheck t)}"
  | "ws.utf8", [h] => do
    let b ← parseBytes h
    pure s!"{b01 (utf8Valid b)} {b01 (WsRead.utf8Valid b)}"
  | "ws.closecode", [c] => do
    let c ← c.toNat?
    pure s!"{b01 (validCloseCode c)} {b01 (WsRead.isValidReceivedCloseCode c)}"
  | _, _ => none

/-! ### writer scripts (C13) -/

def werrStr : WsWrite.WErr → String
  | .closeSent => "err.closeSent"
  | .invalidControl => "err.invalidControl"
  | .badOpcode => "err.badOpcode"
  | .writeClosed => "err.writeClosed"
  | .internal => "err.internal"

def resStr : Option WsWrite.WErr → String
  | none => "ok"
  | some e => werrStr e

def parseBar (s : String) : Option (List Bytes) :=
  if s == "_" then some [] else (s.splitOn "|").mapM parseBytes

def parseSlashNats (s : String) : Option (List Nat) :=
  if s == "_" then some [] else (s.splitOn "/").mapM (·.toNat?)

structure WScript where
  c : WsWrite.WConn
  w : Option WsWrite.MW := none
  held : Bytes := []
  res : List String := []

def WScript.push (st : WScript) (c : WsWrite.WConn) (r : String) : WScript :=
  { st with c := c, res := st.res ++ [r] }

/-- One script token. `none` = malformed token. -/
def wstep (st : WScript) (tok : String) : Option WScript :=
  match tok.splitOn ";" with
  -- EnableWriteCompression(b) on a connection that negotiated permessage-deflate: `WConn.deflate` is
  -- "negotiated && enabled", so the application's switch is an assignment to it (no result, nothing on the wire)
  | ["E", b] => do
    let b ← p01 b
    pure { st with c := { st.c with deflate := b } }
  | ["M", ty, h] => do
    let ty ← ty.toNat?; let d ← parseBytes h
    let (c, e) := WsWrite.writeMessage st.c ty d
    pure (st.push c (resStr e))
  | ["MZ", ty, cs] => do
    let ty ← ty.toNat?; let cs ← parseBar cs
    let (c, e) := WsWrite.writeMessageZ st.c ty cs
    pure (st.push c (resStr e))
  | ["K", ty, h] => do
    let ty ← ty.toNat?; let d ← parseBytes h
    let (c, e) := WsWrite.writeControl st.c ty d
    pure (st.push c (resStr e))
  | ["P", ty, h] => do
    let ty ← ty.toNat?; let d ← parseBytes h
    let (c, e) := WsWrite.writePrepared st.c ty d none
    pure (st.push c (resStr e))
  | ["PZ", ty, h, cs] => do
    let ty ← ty.toNat?; let d ← parseBytes h; let cs ← parseBar cs
    let (c, e) := WsWrite.writePrepared st.c ty d (some cs)
    pure (st.push c (resStr e))
  | ["N", ty] => do
    let ty ← ty.toNat?
    match WsWrite.nextWriter st.c ty with
    | (c, .ok w) => pure { st with c := c, w := some w, held := [], res := st.res ++ ["ok"] }
    | (c, .error e) => pure { st with c := c, w := none, res := st.res ++ [werrStr e] }
  | ["NZ", ty] => do
    let ty ← ty.toNat?
    match WsWrite.nextWriter st.c ty with
    | (c, .ok w) => pure { st with c := { c with writer := none }, w := some w, held := [], res := st.res ++ ["ok"] }
    | (c, .error e) => pure { st with c := c, w := none, res := st.res ++ [werrStr e] }
  | ["W", h] => do
    let d ← parseBytes h; let w ← st.w
    let (c, w, e) := WsWrite.mwWrite st.c w d
    pure { st with c := c, w := some w, res := st.res ++ [resStr e] }
  | ["S", h] => do
    let d ← parseBytes h; let w ← st.w
    let (c, w, e) := WsWrite.mwWriteString st.c w d
    pure { st with c := c, w := some w, res := st.res ++ [resStr e] }
  | ["R", ks, h] => do
    let ks ← parseSlashNats ks; let d ← parseBytes h; let w ← st.w
    let (c, w, e) := WsWrite.mwReadFrom st.c w ks d
    pure { st with c := c, w := some w, res := st.res ++ [resStr e] }
  | ["Z", h] => do
    let d ← parseBytes h; let w ← st.w
    let (c, w, held, e) := WsWrite.deflateChunks st.c w st.held [d]
    pure { st with c := c, w := some w, held := held, res := st.res ++ [resStr e] }
  | ["C"] => do
    let w ← st.w
    let (c, w, e) := WsWrite.mwClose st.c w
    pure { st with c := c, w := some w, res := st.res ++ [resStr e] }
  | ["CZ"] => do
    let w ← st.w
    let (c, w, e) := WsWrite.deflateClose st.c w st.held
    pure { st with c := c, w := some w, res := st.res ++ [resStr e] }
  | _ => none

def wrun (st : WScript) : List String → Option WScript
  | [] => some st
  | t :: ts => do let st ← wstep st t; wrun st ts

def handleW (op : String) (args : List String) : Option String :=
  match op, args with
  | "ws.write", role :: b :: deflate :: keys :: ops => do
    let role ← parseRole role; let b ← b.toNat?; let d ← p01 deflate
    let keys ← if keys == "_" then some [] else (keys.splitOn ",").mapM parseBytes
    let st ← wrun { c := { isServer := role == .server, bufSize := b, deflate := d, keys := keys } } ops
    pure s!"wire={toHex st.c.wire} res={listStr st.res}"
  | "ws.trunc", [parts] => do
    let ps ← parseBar parts
    let (h, d) := WsWrite.truncRun [] [] ps
    pure s!"down={toHex d} held={toHex h}"
  | "ws.mask", [key, pos, h] => do
    let key ← parseBytes key; let pos ← pos.toNat?; let d ← parseBytes h
    pure s!"{toHex (WsWrite.maskBytes key pos d)} {toHex (xorMask key pos d)} {toHex (WsRead.maskBytes key pos d)}"
  | _, _ => none

/-- `wsconc.accepts WIRE SENDERS PARTIALS`: SENDERS = `|`-separated, each `a:` or `p:` (all / prefix)
followed by comma-separated frame bytes (`_` for none); PARTIALS comma-separated or `_`. -/
def parseSender (s : String) : Option WsConc.Sender := do
  let all ← if s.startsWith "a;" then some true else if s.startsWith "p;" then some false else none
  let body := (s.drop 2).toString
  let fs ← if body == "_" then some [] else (body.splitOn ",").mapM parseBytes
  pure ⟨fs, all⟩

def handleConc (op : String) (args : List String) : Option String :=
  match op, args with
  | "wsconc.accepts", [wire, senders, partials] => do
    let w ← parseBytes wire
    let ss ← if senders == "_" then some [] else (senders.splitOn "|").mapM parseSender
    let ps ← if partials == "_" then some [] else (partials.splitOn ",").mapM parseBytes
    pure (b01 (WsConc.accepts w ss ps))
  | _, _ => none

def handle (op : String) (args : List String) : Option String :=
  match op, args with
  | "wsconc.accepts", _ => handleConc op args
  | "ws.write", _ => handleW op args
  | "ws.trunc", _ => handleW op args
  | "ws.mask", _ => handleW op args
  | "ws.c14", [role, deflate, limit, fs] => do
    -- one round trip for the C14 driver: wire image | spec receiver | reader model
    let r ← handle1 "ws.recv" [role, deflate, (if limit == "0" then toString (2 ^ 63 - 1 : Nat) else limit), fs]
    let w ← handle1 "ws.ser" [fs]
    let m ← handle1 "ws.read" [role, deflate, limit, w]
    pure s!"{w}|{r}|{m}"
  | _, _ => handle1 op args

end Oracle.Ws
