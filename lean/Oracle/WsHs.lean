/-
  Oracle ops `hs.*` over Model.WsHandshake (websocket opening handshake).

  Fields: byte strings are `-` (empty) or hex. A list of byte strings is comma separated, `_` = empty list.
  A header block is `name:val,val;name:val` (`_` = no entries; an entry without values is `name:_`). `nil` where a Go
  nil map / nil slice is meant.
-/
import Oryx.Base.Text
import Oryx.Model.WsHandshake
import Oryx.Spec.Sha1
import Oryx.Model.WsDeadline
import Oryx.Gen.Websocket
namespace Oracle.WsHs
open Oryx Oryx.Model.WsHs

def b01 (b : Bool) : String := if b then "1" else "0"
def p01 (s : String) : Option Bool := if s == "1" then some true else if s == "0" then some false else none

def parseList (s : String) : Option (List Bytes) :=
  if s == "_" then some [] else (s.splitOn ",").mapM parseBytes
def listStr (l : List Bytes) : String := if l.isEmpty then "_" else ",".intercalate (l.map toHex)

def parseHeader (s : String) : Option Header :=
  if s == "_" then some []
  else (s.splitOn ";").mapM (fun e =>
    match e.splitOn ":" with
    | [k, vs] => do
      let k ← parseBytes k
      let vs ← parseList vs
      pure (k, vs)
    | _ => none)
def headerStr (h : Header) : String :=
  if h.isEmpty then "_" else ";".intercalate (h.map (fun p => toHex p.1 ++ ":" ++ listStr p.2))

/-- insertion sort of strings (canonical order for what is a Go map on the other side) -/
def insertS (x : String) : List String → List String
  | [] => [x]
  | y :: ys => if x ≤ y then x :: y :: ys else y :: insertS x ys
def sortS (l : List String) : List String := l.foldr insertS []

def extStr (e : Ext) : String := "+".intercalate (sortS (e.map (fun p => toHex p.1 ++ "=" ++ toHex p.2)))
def extsStr (l : List Ext) : String := if l.isEmpty then "_" else "|".intercalate (l.map extStr)

def upStr : UpOut → String
  | .httpError st => s!"err {st}"
  | .earlyData => "early"
  | .accept lines c sub => s!"accept {b01 c} {toHex sub} {headerStr lines}"

def clStr : ClientOut → String
  | .badHandshake => "bad"
  | .invalidCompression => "invalid"
  | .accept c sub => s!"accept {b01 c} {toHex sub}"

/-- deadline histories: ops `d.<now>.<dl>.<id>` / `c.<now>.<dl>.<id>` separated by `,` (dl `n` = none) -/
def parseDlOp (s : String) : Option Oryx.Model.WsDeadline.Op :=
  match s.splitOn "." with
  | [k, now, dl, id] => do
    let now ← now.toNat?
    let id ← id.toNat?
    let dl ← if dl == "n" then some none else dl.toNat?.map some
    if k == "d" then some (.data now dl id) else if k == "c" then some (.control now dl id) else none
  | _ => none

def handle (op : String) (args : List String) : Option String :=
  match op, args with
  | "hs.deadline", [armed, ops] => do
    let armed ← if armed == "n" then some none else armed.toNat?.map some
    let ops ← if ops == "_" then some [] else (ops.splitOn ",").mapM parseDlOp
    let r := Oryx.Model.WsDeadline.run Oryx.Gen.Websocket.writesArmOwnDeadline { armed := armed } ops
    let s := Oryx.Model.WsDeadline.specRun {} ops
    pure s!"{"".intercalate (r.2.map b01)} {" ".intercalate (r.1.wire.map toString)}|{"".intercalate (s.2.map b01)} {" ".intercalate (s.1.wire.map toString)}"
  | "hs.octet", [b] => do
    let n ← b.toNat?
    pure (toString (octetType (UInt8.ofNat n)))
  | "hs.skip", [s] => do pure (toHex (skipSpace (← parseBytes s)))
  | "hs.tok", [s] => do
    let r := nextToken (← parseBytes s)
    pure s!"{toHex r.1} {toHex r.2}"
  | "hs.tokq", [s] => do
    let r := nextTokenOrQuoted (← parseBytes s)
    pure s!"{toHex r.1} {toHex r.2}"
  | "hs.fold", [s, c] => do pure (b01 (eqFoldC (← parseBytes s) (← parseBytes c)))
  | "hs.tlcv", [value, vals] => do pure (b01 (tokenListContainsValue (← parseList vals) (← parseBytes value)))
  | "hs.ext", [vals] => do pure (extsStr (parseExtensions (← parseList vals)))
  | "hs.canon", [k] => do pure (toHex (canon (← parseBytes k)))
  | "hs.subprotocols", [h] => do pure (listStr (subprotocolsOf (← parseHeader h)))
  | "hs.upgrade", [accept, comp, subs, origin, buffered, method, respHdr, hdr] => do
    let accept ← parseBytes accept
    let u : Upgrader := { enableCompression := ← p01 comp,
                          subprotocols := ← (if subs == "nil" then some none else (parseList subs).map some),
                          originOk := ← p01 origin }
    let rh ← (if respHdr == "nil" then some none else (parseHeader respHdr).map some)
    let r : Request := { method := ← parseBytes method, header := ← parseHeader hdr, buffered := ← p01 buffered }
    pure (upStr (upgrade (fun _ => accept) u rh r))
  | "hs.request", [comp, subs, key, reqHdr] => do
    let d : Dialer := { enableCompression := ← p01 comp, subprotocols := ← parseList subs }
    match clientRequest d (← parseBytes key) (← parseHeader reqHdr) with
    | none => pure "dup"
    | some h => pure ("ok " ++ headerStr h)
  | "hs.client", [accept, key, status, hdr] => do
    let accept ← parseBytes accept
    pure (clStr (clientCheck (fun _ => accept) (← parseBytes key) (← status.toNat?) (← parseHeader hdr)))
  | "hs.accept", [key] => do pure (toHex (Oryx.Spec.Sha1.acceptKey (← parseBytes key)))
  | "hs.sha1", [m] => do pure (toHex (Oryx.Spec.Sha1.sha1 (← parseBytes m)))
  | "hs.url", [u] => do
    match parseURL (← parseBytes u) with
    | none => pure "err"
    | some w => pure s!"ok {toHex w.scheme} {toHex w.host} {toHex (requestURI w)} {toHex (hostPortNoPort w).1} {toHex (hostPortNoPort w).2}"
  | "hs.transport", [hdr] => do pure (headerStr (transport (← parseHeader hdr)))
  | _, _ => none

end Oracle.WsHs
