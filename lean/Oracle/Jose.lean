import Oryx.Base.Text
import Oryx.Model.Jose
namespace Oracle.Jose
open Oryx Oryx.Jose

/-- Go strings are byte strings: one `Char` per byte (all the library's decisions are on ASCII). -/
def charsOfBytes (b : Bytes) : List Char := b.map (fun x => Char.ofNat x.toNat)
def bytesOfChars (cs : List Char) : Bytes := cs.map (fun c => UInt8.ofNat c.toNat)

def textArg (s : String) : Option (List Char) := (parseBytes s).map charsOfBytes
def textOut (cs : List Char) : String := toHex (bytesOfChars cs)

def hexList (l : List Bytes) : String := if l.isEmpty then "_" else ",".intercalate (l.map toHex)
def parseHexList (s : String) : Option (List Bytes) :=
  if s == "_" then some [] else (s.splitOn ",").mapM parseBytes

def parseEnc : String → Option Enc
  | "A128GCM" => some .a128gcm | "A192GCM" => some .a192gcm | "A256GCM" => some .a256gcm
  | "A128CBC-HS256" => some .a128cbc | "A192CBC-HS384" => some .a192cbc | "A256CBC-HS512" => some .a256cbc
  | _ => none

def unitStr (r : Res Unit) : String := r.str (fun _ => "")

def parseHeader (s : String) : Option (Option Header) :=
  if s == "none" then some none else
  match s.splitOn "|" with
  | [a, e, z, k, n] => do
    let f := fun (x : String) => (textArg x).map String.ofList
    let a ← f a; let e ← f e; let z ← f z; let k ← f k; let n ← f n
    pure (some { alg := a, enc := e, zip := z, kid := k, nonce := n })
  | _ => none

def hdrStr (h : Header) : String :=
  let f := fun (x : String) => textOut x.toList
  s!"{f h.alg}|{f h.enc}|{f h.zip}|{f h.kid}|{f h.nonce}"

/-- Toy instances for the recipient loop (`jose.jwe.multi`): an AEAD that opens only under `multiCek`, and a key
management whose encrypted keys say what the caller's key makes of them (0: error, 1: a wrong CEK, 2: the CEK). -/
def multiCek : Bytes := [0xCE, 0x4B]
def multiAead : AeadPrim where
  sealF _ _ p _ := (p, [])
  openF k _ ct _ _ := if k = multiCek then some ct else none
def multiKm : KeyMgmt Unit Unit where
  pub := id
  wrap _ c := 2 :: c
  unwrap _ e := match e with
    | 1 :: _ => some [0xBA, 0x0D]
    | 2 :: c => some c
    | _ => none

def handle (op : String) (args : List String) : Option String :=
  match op, args with
  | "jose.b64", [h] => do let b ← parseBytes h; pure (textOut (b64 b))
  | "jose.unb64", [t] => do let t ← textArg t; pure ((unb64 t).str toHex)
  | "jose.canon", [t] => do let t ← textArg t; pure (textOut (canonLast t))
  | "jose.compact.ser", [l] => do let l ← parseHexList l; pure (textOut (compactSerialize l))
  | "jose.compact.parse", [n, t] => do
    let n ← n.toNat?; let t ← textArg t
    pure ((compactParse n t).str hexList)
  | "jose.sigin", [p, m] => do let p ← parseBytes p; let m ← parseBytes m; pure (textOut (signingInput p m))
  | "jose.aad", [p, a] => do
    let p ← parseBytes p
    let a ← if a == "none" then some none else (parseBytes a).map some
    pure (textOut (aadInput p a))
  | "jose.pad", [k, b] => do let k ← k.toNat?; let b ← parseBytes b; pure (toHex (pad k b))
  | "jose.unpad", [k, b] => do let k ← k.toNat?; let b ← parseBytes b; pure ((unpad k b).str toHex)
  | "jose.taginput", [a, iv, ct] => do
    let a ← parseBytes a; let iv ← parseBytes iv; let ct ← parseBytes ct
    pure (toHex (tagInput a iv ct))
  | "jose.kw.wrap", [k, b] => do let k ← k.toNat?; let b ← parseBytes b; pure ((keyWrap (toyEnc k) b).str toHex)
  | "jose.kw.unwrap", [k, b] => do let k ← k.toNat?; let b ← parseBytes b; pure ((keyUnwrap (toyDec k) b).str toHex)
  | "jose.kw.unwrap0", [k, b] => do
    let k ← k.toNat?; let b ← parseBytes b; pure ((keyUnwrapUnrepaired (toyDec k) b).str toHex)
  | "jose.toy.enc", [k, b] => do let k ← k.toNat?; let b ← parseBytes b; pure (toHex (toyEnc k b))
  | "jose.toy.dec", [k, b] => do let k ← k.toNat?; let b ← parseBytes b; pure (toHex (toyDec k b))
  | "jose.ecsig.enc", [n, r, s] => do
    let n ← n.toNat?; let r ← r.toNat?; let s ← s.toNat?; pure ((ecSigEncode n r s).str toHex)
  | "jose.ecsig.dec", [n, b] => do
    let n ← n.toNat?; let b ← parseBytes b
    pure ((ecSigDecode n b).str (fun p => s!"{p.1} {p.2}"))
  | "jose.fixed", [n, v] => do let n ← n.toNat?; let v ← v.toNat?; pure ((fixedSize n v).str toHex)
  | "jose.eccoords.enc", [n, x, y] => do
    let n ← n.toNat?; let x ← x.toNat?; let y ← y.toNat?
    pure ((ecCoordsEncode n x y).str (fun p => s!"{toHex p.1} {toHex p.2}"))
  | "jose.eccoords.dec", [x, y] => do
    let x ← parseBytes x; let y ← parseBytes y
    let p := ecCoordsDecode x y; pure s!"{p.1} {p.2}"
  | "jose.curvesize", [b] => do let b ← b.toNat?; pure (toString (curveSize b))
  | "jose.merge", [p, u, r] => do
    let p ← parseHeader p; let u ← parseHeader u; let r ← parseHeader r
    pure (hdrStr (mergedHeaders p u r))
  | "jose.precheck", [e, k, i, c, t] => do
    let e ← parseEnc e; let k ← k.toNat?; let i ← i.toNat?; let c ← c.toNat?; let t ← t.toNat?
    pure (unitStr (precheck e k i c t))
  | "jose.precheck0", [e, k, i, c, t] => do
    let e ← parseEnc e; let k ← k.toNat?; let i ← i.toNat?; let c ← c.toNat?; let t ← t.toNat?
    pure (unitStr (precheckUnrepaired e k i c t))
  | "jose.decres", [o] => do
    let o ← if o == "none" then some none else (parseBytes o).map some
    pure ((decryptResult o).str toHex)
  | "jose.decres0", [o] => do
    let o ← if o == "none" then some none else (parseBytes o).map some
    pure ((decryptResultUnrepaired o).str toHex)
  | "jose.jwe.multi", [v, z] => do
    -- the recipient loop on a multi-recipient object; per entry, what the caller's key makes of it:
    -- n = key decryption fails, w = it "succeeds" with a CEK that is not the CEK (RSA1_5 on a foreign entry),
    -- r = the caller's own entry. z = 1: the payload was compressed (toy deflate: a marker byte).
    let pt : Bytes := [0x70, 0x74]
    let zp : Option Zip := if z == "1" then some { deflate := fun x => 0x5a :: x, inflate := fun x => some x.tail } else none
    let eks ← v.toList.mapM (fun ch => match ch with
      | 'n' => some [0] | 'w' => some [1] | 'r' => some (2 :: multiCek) | _ => none)
    let o := jweEncryptMulti multiAead multiKm zp [] multiCek [] [] pt none
    pure ((jweDecryptMulti multiAead multiKm zp () { o with eks := eks }).str toHex)
  | _, _ => none

end Oracle.Jose
