/-
  Oracle ops for the RTMP packet layer (model Oryx/Model/RtmpPkt.lean).

  Packet text, one token, fields separated by `;` (AMF0 trees in the text of Oracle/Amf0.lean, which
  contains no `;`):
    connect;NAME;TID;o[…];ARGS          connectRes;NAME;TID;o[…];ARGS        ARGS = o[…] | -
    createStream;NAME;TID;OBJ           createStreamRes;NAME;TID;OBJ;SID     OBJ  = AMF0 tree | -
    publish;NAME;TID;OBJ;SNAME;STYPE    play;NAME;TID;OBJ;SNAME              call;NAME;TID;OBJ;ARG
    setChunkSize;N   winAck;N   setPeerBw;N;L   userControl;EVT;DATA;EXTRA   (decimal)
  NAME/SNAME/STYPE = hex, `-` for empty (input also `S<len>.<seed>`); TID/SID = 16 hex digits (float64 bits).
  Table text: `_` or `TID=NAMEHEX,…` sorted by the bits. Messages: `cid.ty.sid.ts.PAYLOAD,…` (Oracle/Rtmp.lean).
-/
import Oryx.Base.Text
import Oryx.Model.RtmpPkt
import Oracle.Amf0
import Oracle.Rtmp
namespace Oracle.RtmpPkt
open Oryx Oryx.Amf0 Oryx.Rtmp Oryx.RtmpPkt Oracle.Amf0

def bstr (b : Bytes) : String := if b.isEmpty then "-" else hexOf b

def optStr : Option Val → String
  | some v => valStr v
  | none => "-"

def optPropsStr : Option Props → String
  | some ps => valStr (.obj ps)
  | none => "-"

def kindStr : Kind → String
  | .connect => "connect" | .connectRes => "connectRes" | .createStream => "createStream"
  | .createStreamRes => "createStreamRes" | .publish => "publish" | .play => "play" | .call => "call"
  | .setChunkSize => "setChunkSize" | .winAck => "winAck" | .setPeerBw => "setPeerBw" | .userControl => "userControl"

def parseKind : String → Option Kind
  | "connect" => some .connect | "connectRes" => some .connectRes | "createStream" => some .createStream
  | "createStreamRes" => some .createStreamRes | "publish" => some .publish | "play" => some .play
  | "call" => some .call | "setChunkSize" => some .setChunkSize | "winAck" => some .winAck
  | "setPeerBw" => some .setPeerBw | "userControl" => some .userControl
  | _ => none

def objCallStr (c : ObjCall) : String :=
  s!"{bstr c.name};{hex16 c.tid.toNat};{valStr (.obj c.obj)};{optPropsStr c.args}"

def varCallStr (c : VarCall) : String :=
  s!"{bstr c.name};{hex16 c.tid.toNat};{optStr c.obj}"

def pktStr : Packet → String
  | .connect c => "connect;" ++ objCallStr c
  | .connectRes c => "connectRes;" ++ objCallStr c
  | .createStream c => "createStream;" ++ varCallStr c
  | .createStreamRes c sid => s!"createStreamRes;{varCallStr c};{hex16 sid.toNat}"
  | .publish c sn st => s!"publish;{varCallStr c};{bstr sn};{bstr st}"
  | .play c sn => s!"play;{varCallStr c};{bstr sn}"
  | .call c a => s!"call;{varCallStr c};{optStr a}"
  | .setChunkSize v => s!"setChunkSize;{v}"
  | .winAck v => s!"winAck;{v}"
  | .setPeerBw v l => s!"setPeerBw;{v};{l}"
  | .userControl e d x => s!"userControl;{e};{d};{x}"

def readTid (s : String) : Option UInt64 := do
  let bs ← ofHexChars s.toList
  if bs.length ≠ 8 then none else pure (UInt64.ofNat (ofBE bs))

def readOpt (s : String) : Option (Option Val) :=
  if s == "-" then some none else (readVal s).map some

def readProps (s : String) : Option Props :=
  match readVal s with
  | some (.obj ps) => some ps
  | _ => none

def readOptProps (s : String) : Option (Option Props) :=
  if s == "-" then some none else (readProps s).map some

def readObjCall (n t o a : String) : Option ObjCall := do
  let n ← readKey n; let t ← readTid t; let o ← readProps o; let a ← readOptProps a
  pure { name := n, tid := t, obj := o, args := a }

def readVarCall (n t o : String) : Option VarCall := do
  let n ← readKey n; let t ← readTid t; let o ← readOpt o
  pure { name := n, tid := t, obj := o }

def readPkt (s : String) : Option Packet :=
  match s.splitOn ";" with
  | ["connect", n, t, o, a] => (readObjCall n t o a).map .connect
  | ["connectRes", n, t, o, a] => (readObjCall n t o a).map .connectRes
  | ["createStream", n, t, o] => (readVarCall n t o).map .createStream
  | ["createStreamRes", n, t, o, sid] => do
    let c ← readVarCall n t o; let sid ← readTid sid; pure (.createStreamRes c sid)
  | ["publish", n, t, o, sn, st] => do
    let c ← readVarCall n t o; let sn ← readKey sn; let st ← readKey st; pure (.publish c sn st)
  | ["play", n, t, o, sn] => do
    let c ← readVarCall n t o; let sn ← readKey sn; pure (.play c sn)
  | ["call", n, t, o, a] => do
    let c ← readVarCall n t o; let a ← readOpt a; pure (.call c a)
  | ["setChunkSize", v] => do let v ← v.toNat?; pure (.setChunkSize v)
  | ["winAck", v] => do let v ← v.toNat?; pure (.winAck v)
  | ["setPeerBw", v, l] => do let v ← v.toNat?; let l ← l.toNat?; pure (.setPeerBw v l)
  | ["userControl", e, d, x] => do
    let e ← e.toNat?; let d ← d.toNat?; let x ← x.toNat?; pure (.userControl e d x)
  | _ => none

/-! transaction table -/

def insertSorted (e : UInt64 × Bytes) : List (UInt64 × Bytes) → List (UInt64 × Bytes)
  | [] => [e]
  | x :: xs => if e.1.toNat ≤ x.1.toNat then e :: x :: xs else x :: insertSorted e xs

def tblStr (t : TxnTable) : String :=
  if t.isEmpty then "_" else
  ",".intercalate ((t.foldr insertSorted []).map fun e => hex16 e.1.toNat ++ "=" ++ bstr e.2)

def readTbl (s : String) : Option TxnTable :=
  if s == "_" then some [] else
  (s.splitOn ",").mapM fun e =>
    match e.splitOn "=" with
    | [k, v] => do let k ← readTid k; let v ← readKey v; pure (k, v)
    | _ => none

def resStr (r : Res Packet) : String := r.str pktStr

def readTypes (s : String) : Option (List Nat) :=
  if s == "_" then some [] else (s.splitOn ",").mapM String.toNat?

def handle (op : String) (args : List String) : Option String :=
  match op, args with
  | "rtmp.pkt.echo", [p] => do let p ← readPkt p; pure (pktStr p)
  | "rtmp.pkt.enc", [p] => do
    let p ← readPkt p
    pure s!"{p.msgType} {p.cid} {p.size} {p.wf} {toHex p.marshal}"
  | "rtmp.pkt.dec", [k, h] => do
    let k ← parseKind k; let b ← parseBytes h
    pure (resStr (unmarshal k b))
  | "rtmp.pkt.written", [t, p] => do
    let t ← readTbl t; let p ← readPkt p
    pure (tblStr (onPacketWritten t p))
  | "rtmp.pkt.write", [c, t, sid, p] => do
    let c ← c.toNat?; let t ← readTbl t; let sid ← sid.toNat?; let p ← readPkt p
    let (w, t') := writePacket c t p sid
    pure s!"{w.str toHex} {tblStr t'}"
  | "rtmp.dispatch", [t, ty, h] => do
    let t ← readTbl t; let ty ← ty.toNat?; let b ← parseBytes h
    let (r, t') := dispatchSt t { hdr := { ty := ty }, payload := b }
    pure s!"{resStr r} {tblStr t'}"
  | "rtmp.expect.pkt", [k, t, ms] => do
    let k ← parseKind k; let t ← readTbl t; let ms ← Oracle.Rtmp.parseMsgs ms
    let (r, t') := expectPacket k t ms
    pure s!"{r.str fun (_, p, rest) => s!"{ms.length - rest.length - 1} {pktStr p}"} {tblStr t'}"
  | "rtmp.expect.msg", [tys, ms] => do
    let tys ← readTypes tys; let ms ← Oracle.Rtmp.parseMsgs ms
    pure ((expectMessage tys ms).str fun (_, rest) => toString (ms.length - rest.length - 1))
  | _, _ => none

end Oracle.RtmpPkt
