import Oryx.Base.Text
import Oryx.Model.RtmpTxn
namespace Oracle.Txn
open Oryx Oryx.RtmpTxn

def parseAct (s : String) : Option Act :=
  if s == "w" then some .w
  else if s.startsWith "r" then (s.drop 1).toString.toNat?.map Act.r
  else if s.startsWith "s" then (s.drop 1).toString.toNat?.map Act.stray
  else none

def orderStr : Gen.Rtmp.TxnOrder → String
  | .registerThenWrite => "registerThenWrite"
  | .writeThenRegister => "writeThenRegister"

def parseOrder (s : String) : Option Gen.Rtmp.TxnOrder :=
  if s == "registerThenWrite" then some .registerThenWrite
  else if s == "writeThenRegister" then some .writeThenRegister
  else if s == "current" then some Gen.Rtmp.txnOrder
  else none

def natsStr (l : List Nat) : String := if l.isEmpty then "_" else ",".intercalate (l.map toString)

def handle (op : String) (args : List String) : Option String :=
  match op, args with
  | "txn.order", [] => some (orderStr Gen.Rtmp.txnOrder)
  | "txn.run", [o, reqs, sched] => do
    let o ← parseOrder o
    let reqs ← if reqs == "_" then some [] else (reqs.splitOn ",").mapM String.toNat?
    let acts ← if sched == "_" then some [] else (sched.splitOn ",").mapM parseAct
    match run (init o reqs) acts with
    | none => pure "not-enabled"
    | some s => pure s!"matched={natsStr s.matched.reverse} failed={natsStr s.failed.reverse} table={natsStr s.table} refused={natsStr s.refused.reverse}"
  | _, _ => none

end Oracle.Txn
