/-
  Registry of oracle op handlers: (op prefix, handler). One line per domain.
-/
import Oracle.Avc
import Oracle.Rtmp
import Oracle.RtmpPkt
import Oracle.Flv
import Oracle.Amf0
import Oracle.Aac
import Oracle.Kxps
import Oracle.Json
import Oracle.Txn
import Oracle.Http
import Oracle.Logger
import Oracle.Jose
import Oracle.Errors
import Oracle.Ws
import Oracle.WsHs

namespace Oracle

def handlers : List (String × (String → List String → Option String)) := [
  ("avc.", Oracle.Avc.handle),
  ("rtmp.pkt.", Oracle.RtmpPkt.handle), ("rtmp.dispatch", Oracle.RtmpPkt.handle), ("rtmp.expect.", Oracle.RtmpPkt.handle),
  ("rtmp.", Oracle.Rtmp.handle),
  ("flv.", Oracle.Flv.handle),
  ("amf0.", Oracle.Amf0.handle),
  ("adts.", Oracle.Aac.handle), ("asc.", Oracle.Aac.handle), ("aac.", Oracle.Aac.handle),
  ("kxps.", Oracle.Kxps.handle),
  ("json.", Oracle.Json.handle),
  ("txn.", Oracle.Txn.handle),
  ("http.", Oracle.Http.handle),
  ("logger.", Oracle.Logger.handle),
  ("jose.", Oracle.Jose.handle),
  ("err.", Oracle.Errors.handle), ("c08.", Oracle.Errors.handle),
  ("hs.", Oracle.WsHs.handle),
  ("ws", Oracle.Ws.handle)
]

def dispatch (op : String) (args : List String) : Option String :=
  match handlers.find? (fun h => op.startsWith h.1) with
  | some h => h.2 op args
  | none => none

end Oracle
