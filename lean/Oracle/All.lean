/-
  Registry of oracle op handlers: (op prefix, handler). One line per domain.
-/
import Oracle.Avc
import Oracle.Ws

namespace Oracle

def handlers : List (String × (String → List String → Option String)) := [
  ("avc.", Oracle.Avc.handle),
  ("ws", Oracle.Ws.handle)
]

def dispatch (op : String) (args : List String) : Option String :=
  match handlers.find? (fun h => op.startsWith h.1) with
  | some h => h.2 op args
  | none => none

end Oracle
