/-
  Registry of oracle op handlers: (op prefix, handler). One line per domain.
-/
import Oracle.Avc
import Oracle.Http
import Oracle.Logger
import Oracle.Jose

namespace Oracle

def handlers : List (String × (String → List String → Option String)) := [
  ("avc.", Oracle.Avc.handle),
  ("http.", Oracle.Http.handle),
  ("logger.", Oracle.Logger.handle),
  ("jose.", Oracle.Jose.handle)
]

def dispatch (op : String) (args : List String) : Option String :=
  match handlers.find? (fun h => op.startsWith h.1) with
  | some h => h.2 op args
  | none => none

end Oracle
