import Oryx.Base.Text
import Oryx.Model.Aac
import Oryx.Spec.Adts
namespace Oracle.Aac
open Oryx Oryx.Aac

/-- config `object.sampleRate.channels` (decimal) -/
def cfgStr (a : Asc) : String := s!"{a.object.toNat}.{a.sampleRate.toNat}.{a.channels.toNat}"

def parseCfg (s : String) : Option Asc :=
  match s.splitOn "." with
  | [o, r, c] => do
    let o ← o.toNat?; let r ← r.toNat?; let c ← c.toNat?
    if o < 256 ∧ r < 256 ∧ c < 256 then
      pure { object := UInt8.ofNat o, sampleRate := UInt8.ofNat r, channels := UInt8.ofNat c }
    else none
  | _ => none

/-- byte field: parts joined by `+`, each `-`, hex or `p:len:seed` -/
def parseCat (s : String) : Option Bytes := do
  let parts ← (s.splitOn "+").mapM parseBytes
  pure parts.flatten

def resTag : Res α → String
  | .ok _ => "ok" | .err k => k.str | .panic => "panic"

def rstr (f : α → String) : Res α → String
  | .ok a => "ok:" ++ f a | .err k => k.str | .panic => "panic"

def optStr : Option Nat → String
  | some n => toString n | none => "none"

def rawsStr (l : List Bytes) : String := if l.isEmpty then "_" else ",".intercalate (l.map toHex)

def handle (op : String) (args : List String) : Option String :=
  match op, args with
  | "adts.enc", [cfg, h] => do
    let a ← parseCfg cfg; let raw ← parseCat h
    pure ((adtsEncode a raw).str toHex)
  | "adts.dec", [cfg, h] => do
    let st ← parseCfg cfg; let b ← parseCat h
    let (st', r) := adtsDecode st b
    pure (match r with
      | .ok (raw, left) => s!"ok {toHex raw} {toHex left} {cfgStr st'}"
      | r => s!"{resTag r} {cfgStr st'}")
  | "adts.stream", [cfg, h] => do
    let st ← parseCfg cfg; let b ← parseCat h
    pure ((decodeStream (b.length + 1) st b).str rawsStr)
  | "adts.spec", [id, pa, prof, sfi, priv, ch, orig, home, cb, cs, bf, crc, h] => do
    let id ← id.toNat?; let pa ← pa.toNat?; let prof ← prof.toNat?; let sfi ← sfi.toNat?
    let priv ← priv.toNat?; let ch ← ch.toNat?; let orig ← orig.toNat?; let home ← home.toNat?
    let cb ← cb.toNat?; let cs ← cs.toNat?; let bf ← bf.toNat?; let crc ← crc.toNat?
    let raw ← parseCat h
    let f : Spec.Adts.Frame := ⟨id, pa, prof, sfi, priv, ch, orig, home, cb, cs, bf, crc, raw⟩
    pure (toHex f.write)
  | "asc.dec", [cfg, h] => do
    let st ← parseCfg cfg; let b ← parseCat h
    let (st', r) := ascUnmarshal st b
    pure s!"{resTag r} {cfgStr st'}"
  | "asc.enc", [cfg] => do
    let a ← parseCfg cfg
    pure ((ascMarshal a).str toHex)
  | "aac.enum", [v] => do
    let v ← v.toNat?
    if v ≥ 256 then none else
    let b := UInt8.ofNat v
    pure (" ".intercalate [
      rstr (fun x => toString x.toNat) (toProfile b),
      rstr (fun x => toString x.toNat) (toObjectType b),
      rstr toString (toHz b),
      rstr id (Gen.Aac.ObjectType_String v),
      rstr id (Gen.Aac.Profile_String v),
      rstr id (Gen.Aac.SampleRateIndex_String v),
      rstr id (Gen.Aac.Channels_String v)])
  | "aac.spec.hz", [i] => do let i ← i.toNat?; pure (optStr (Spec.Adts.samplingFrequency i))
  | "aac.spec.obj", [p] => do let p ← p.toNat?; pure (optStr (Spec.Adts.objectTypeOfProfile p))
  | _, _ => none

end Oracle.Aac
