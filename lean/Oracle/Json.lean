import Oryx.Base.Text
import Oryx.Model.Json
import Oryx.Model.JsonRead
namespace Oracle.Json
open Oryx Oryx.Json

/-
  json.strip <bytes>            whole input in one read            → `<ok|err|stuck> <hex of emitted bytes>`
  json.chunks <b1,b2,…>         input delivered as these reads     → same
  json.split <bytes> <0|1>      one call of the split function     → `more` | `fail` | `token <advance> <hex>`
  json.first <bytes>            firstMatch over the start markers  → `<pos> <index>` | `none`
  json.reads <n1,n2,…> <bytes>  Read calls with these slice lengths → `<hex|-|eof|err>,…` (stops at the first eof / err)
-/

def statusStr : Status → String
  | .ok => "ok" | .err => "err" | .stuck => "stuck"

def outStr (r : Bytes × Status) : String := s!"{statusStr r.2} {toHex r.1}"

def handle (op : String) (args : List String) : Option String :=
  match op, args with
  | "json.strip", [h] => do let b ← parseBytes h; pure (outStr (strip jsonPlus b))
  | "json.chunks", [hs] => do
    let cs ← (hs.splitOn ",").mapM parseBytes
    pure (outStr (stripChunks jsonPlus cs))
  | "json.split", [h, e] => do
    let b ← parseBytes h
    pure (match split jsonPlus b (e == "1") with
      | .more => "more"
      | .fail => "fail"
      | .token adv tok => s!"token {adv} {toHex tok}")
  | "json.first", [h] => do
    let b ← parseBytes h
    pure (match firstMatch b jsonPlus.starts with
      | none => "none"
      | some (p, i) => s!"{p} {i}")
  | "json.reads", [ns, h] => do
    let b ← parseBytes h
    let sizes ← if ns == "_" then some [] else (ns.splitOn ",").mapM (·.toNat?)
    let r := (Rd.ofInput jsonPlus b).reads sizes
    let one : ROut → String
      | .data d => if d.isEmpty then "-" else toHex d
      | .eof => "eof"
      | .err => "err"
    pure (if r.2.isEmpty then "_" else ",".intercalate (r.2.map one))
  | _, _ => none

end Oracle.Json
