import Oryx.Base.Text
import Oryx.Model.Flv
import Oryx.Spec.Flv
namespace Oracle.Flv
open Oryx Oryx.Flv

/-- Byte string made of `+`-joined parts, each `-`, hex or `p:len:seed`. -/
def parseParts (s : String) : Option Bytes := do
  let ps ← (s.splitOn "+").mapM parseBytes
  pure ps.flatten

def parseBool (s : String) : Option Bool :=
  if s == "1" then some true else if s == "0" then some false else none

def boolStr (b : Bool) : String := if b then "1" else "0"

/-- `ty.ts.body` -/
def parseTag (s : String) : Option Tag :=
  match s.splitOn "." with
  | [ty, ts, b] => do
    let ty ← ty.toNat?; let ts ← ts.toNat?; let b ← parseBytes b
    pure { ty := UInt8.ofNat ty, ts := ts, body := b }
  | _ => none

def parseTags (s : String) : Option (List Tag) :=
  if s == "_" then some [] else (s.splitOn ",").mapM parseTag

def tagStr (t : Tag) : String := s!"{t.ty.toNat}.{t.ts}.{toHex t.body}"
def tagsStr (l : List Tag) : String := if l.isEmpty then "_" else ",".intercalate (l.map tagStr)

def stopStr : Stop → String
  | .err k => k.str
  | .panic => "panic"

def toSpec (t : Tag) : Spec.Flv.Tag := { tagType := t.ty.toNat, timestamp := t.ts, data := t.body }

def audioStr (f : AudioFrame) : String :=
  s!"{f.fmt.toNat} {f.rate.toNat} {f.size.toNat} {f.chan.toNat} {f.trait.toNat} {f.level} {toHex f.raw}"

def videoStr (f : VideoFrame) : String :=
  s!"{f.codec.toNat} {f.frameType.toNat} {f.trait.toNat} {f.cts} {toHex f.raw}"

def u8 (s : String) : Option UInt8 := do
  let n ← s.toNat?
  if n < 256 then some (UInt8.ofNat n) else none

def handle (op : String) (args : List String) : Option String :=
  match op, args with
  -- C09: muxer
  | "flv.hdr.enc", [hv, ha] => do
    let hv ← parseBool hv; let ha ← parseBool ha; pure (toHex (writeHeader hv ha))
  | "flv.tag.enc", [t] => do let t ← parseTag t; pure (toHex (writeTag t))
  | "flv.mux", [hv, ha, ts] => do
    let hv ← parseBool hv; let ha ← parseBool ha; let ts ← parseTags ts; pure (toHex (mux hv ha ts))
  -- C09: independent writer of the Annex E layout (note the argument order: audio, video)
  | "flv.spec.file", [a, v, ts] => do
    let a ← parseBool a; let v ← parseBool v; let ts ← parseTags ts
    pure (toHex (Spec.Flv.file a v (ts.map toSpec)))
  -- C09: demuxer
  | "flv.hdr.dec", [b] => do
    let b ← parseParts b
    pure ((readHeader b).str fun (h, rest) => s!"{h.version.toNat} {boolStr h.hasVideo} {boolStr h.hasAudio} {rest.length}")
  | "flv.taghdr.dec", [b] => do
    let b ← parseParts b
    pure ((readTagHeader b).str fun (h, rest) => s!"{h.ty.toNat} {h.size} {h.ts} {rest.length}")
  | "flv.tag.dec", [n, b] => do
    let n ← n.toNat?; let b ← parseParts b
    pure ((readTag n b).str fun (p, rest) => s!"{toHex p} {rest.length}")
  | "flv.demux", [b] => do
    let b ← parseParts b
    pure ((demux b).str fun (h, ts, st) =>
      s!"{h.version.toNat} {boolStr h.hasVideo} {boolStr h.hasAudio} {tagsStr ts} {stopStr st}")
  -- C10: packagers
  | "flv.audio.enc", [f, r, s, c, t, l, raw] => do
    let f ← u8 f; let r ← u8 r; let s ← u8 s; let c ← u8 c; let t ← u8 t; let l ← l.toNat?; let raw ← parseBytes raw
    pure (toHex (encodeAudio { fmt := f, rate := r, size := s, chan := c, trait := t, level := l, raw := raw }))
  | "flv.audio.dec", [b] => do let b ← parseBytes b; pure ((decodeAudio b).str audioStr)
  | "flv.video.enc", [c, ft, t, cts, raw] => do
    let c ← u8 c; let ft ← u8 ft; let t ← u8 t; let cts ← cts.toNat?; let raw ← parseBytes raw
    pure (toHex (encodeVideo { codec := c, frameType := ft, trait := t, cts := cts, raw := raw }))
  | "flv.video.dec", [b] => do let b ← parseBytes b; pure ((decodeVideo b).str videoStr)
  -- C10: helpers
  | "flv.tohz", [v] => do let v ← u8 v; pure ((toHz v).str toString)
  | "flv.opustohz", [v] => do let v ← u8 v; pure ((opusToHz v).str toString)
  | "flv.from", [v] => do
    let v ← u8 v; pure s!"ok {samplingRateFrom v} {samplingRateOpusFrom v} {channelsFrom v}"
  | "flv.str", [ty, v] => do
    let v ← u8 v
    if ty == "AudioFrameTrait" then pure ("ok " ++ audioTraitString v) else
    let r ← enumString ty v.toNat
    pure (r.str id)
  | "flv.spec.audiobyte", [f, r, s, c] => do
    let f ← f.toNat?; let r ← r.toNat?; let s ← s.toNat?; let c ← c.toNat?
    pure (toString (Spec.Flv.audioByte f r s c))
  | "flv.spec.videobyte", [ft, c] => do
    let ft ← ft.toNat?; let c ← c.toNat?; pure (toString (Spec.Flv.videoByte ft c))
  | "flv.spec.hz", [v] => do
    let v ← v.toNat?; pure (match Spec.Flv.soundRateHz.lookup v with | some h => toString h | none => "none")
  | "flv.spec.opushz", [v] => do
    let v ← v.toNat?; pure (match Spec.Flv.opusRateHz.lookup v with | some h => toString h | none => "none")
  | _, _ => none

end Oracle.Flv
