/-
  Line-protocol loop shared by every oracle executable: one request per line `op arg…`, one reply per line.
-/
namespace Oracle

partial def loop (handle : String → List String → Option String) (hin hout : IO.FS.Stream) : IO Unit := do
  let line ← hin.getLine
  if line.isEmpty then return ()
  let ws := (line.trimAscii.toString.splitOn " ").filter (· ≠ "")
  match ws with
  | [] => hout.putStrLn "bad-op"
  | op :: args =>
    match handle op args with
    | some r => hout.putStrLn r
    | none => hout.putStrLn "bad-op"
  hout.flush
  loop handle hin hout

def mainLoop (handle : String → List String → Option String) : IO Unit := do
  loop handle (← IO.getStdin) (← IO.getStdout)

end Oracle
