import Oryx.Base.Text
import Oryx.Model.Errors
import Oryx.Model.IoFault
import Oracle.Rtmp
import Oracle.Flv
/-
  C08 oracle ops.
    err.build LAYERS ROOT          LAYERS = `_` | comma list, OUTERMOST first, of  M:<hex utf8> | S | W:<hex> | F:<hex>
                                   ROOT = nil | <root id>   →  `nil`  |  `<cause shape> <shape> <depth> <hex of Error()> <hex of ": "-joined chain>`
    c08.rtmp.read T C WIRE         read messages until the first error → `<msgs> <class> <shape>`
    c08.rtmp.expect T C WIRE       one ExpectMessage → `ok <msg>` | `<class> <shape>`
    c08.rtmp.cuts T C WIRE KS      for every k in KS (`all` = 0..len): transport delivers take k WIRE then reports T
                                   → comma list `<count>:<class>:<shape>`
    c08.hs.cuts T BYTES KS         handshake reads C0,C1,C2 → comma list `<reads completed>:<class>:<shape>`
    c08.flv.cuts T FILE KS         → comma list `<header read 0/1>:<tags>:<class>:<shape>`
    c08.rtmp.wfaults T B C MSGS KS writer over bufio(B) over a transport accepting k bytes
                                   → comma list `<WriteMessage calls that returned nil>:<class>:<shape>:<bytes delivered>`
    c08.rtmp.wpfaults …            the same through WritePacket (one more WithMessage layer)
    c08.hs.wfaults T KS            handshake writes C0,C1,C2 → comma list `<steps ok>:<class>:<shape>:<bytes delivered>`
    c08.flv.wfaults T HV HA TAGS KS → comma list `<header ok 0/1>:<tags ok>:<class>:<shape>:<bytes delivered>`
  T = root id the transport reports when exhausted (0 io.EOF = the stream ends, 1 io.ErrUnexpectedEOF, 2 injected sentinel).
-/
namespace Oracle.Errors
open Oryx Oryx.Errors Oryx.IoFault

def strOfHex (s : String) : Option String := do
  let bs ← parseBytes s
  String.fromUTF8? (ByteArray.mk bs.toArray)

def hexOfStr (s : String) : String := toHex s.toUTF8.toList

def parseLayer (s : String) : Option Layer :=
  if s == "S" then some .withStack else
  match s.splitOn ":" with
  | ["M", m] => do let m ← strOfHex m; pure (.withMessage m)
  | ["W", m] => do let m ← strOfHex m; pure (.wrap m)
  | ["F", m] => do let m ← strOfHex m; pure (.wrapf m)
  | _ => none

def parseLayers (s : String) : Option (List Layer) :=
  if s == "_" then some [] else (s.splitOn ",").mapM parseLayer

def parseRoot (s : String) : Option (Option Err) :=
  if s == "nil" then some none else do let n ← s.toNat?; pure (some (.root n))

def clsStr (e : Err) : String := e.cls.str

def stopStr : StopE → String
  | .err e => s!"{clsStr e}:{e.shape}"
  | .panic => "panic:-"

/-- `all` = 0..n, else a comma list. -/
def parseKs (s : String) (n : Nat) : Option (List Nat) :=
  if s == "all" then some (List.range (n + 1)) else (s.splitOn ",").mapM String.toNat?

def join (l : List String) : String := if l.isEmpty then "_" else ",".intercalate l

def hsCut (t : Nat) (bs : Bytes) : String :=
  match hsReadC0E t bs with
  | .err e => s!"0:{clsStr e}:{e.shape}"
  | .panic => "0:panic:-"
  | .ok (_, bs) =>
    match hsReadC1E t bs with
    | .err e => s!"1:{clsStr e}:{e.shape}"
    | .panic => "1:panic:-"
    | .ok (_, bs) =>
      match hsReadC2E t bs with
      | .err e => s!"2:{clsStr e}:{e.shape}"
      | .panic => "2:panic:-"
      | .ok _ => "3:ok:-"

def flvCut (t : Nat) (bs : Bytes) : String :=
  match flvDemuxE t bs with
  | .err e => s!"0:0:{clsStr e}:{e.shape}"
  | .panic => "0:0:panic:-"
  | .ok (_, tags, st) => s!"1:{tags.length}:{stopStr st}"

def errStr : Option Err → String
  | none => "ok:-"
  | some e => s!"{clsStr e}:{e.shape}"

def handle (op : String) (args : List String) : Option String :=
  match op, args with
  | "err.build", [ls, r] => do
    let ls ← parseLayers ls; let r ← parseRoot r
    match build ls r with
    | none => pure "nil"
    | some e =>
      pure s!"{e.cause.shape} {e.shape} {e.depth} {hexOfStr e.message} {hexOfStr (joinColon (e.messages ++ [e.cause.message]))}"
  | "c08.rtmp.read", [t, c, wire] => do
    let t ← t.toNat?; let c ← c.toNat?; let wire ← parseBytes wire
    let (ms, st) := readSession c t wire
    pure s!"{Oracle.Rtmp.msgsStr ms} {stopStr st}"
  | "c08.rtmp.expect", [t, c, wire] => do
    let t ← t.toNat?; let c ← c.toNat?; let wire ← parseBytes wire
    match expectMessageE { inChunk := c } t wire with
    | .ok ((m, _), _) => pure s!"ok {Oracle.Rtmp.msgStr m}"
    | .err e => pure s!"{clsStr e} {e.shape}"
    | .panic => pure "panic"
  | "c08.rtmp.cuts", [t, c, wire, ks] => do
    let t ← t.toNat?; let c ← c.toNat?; let wire ← parseBytes wire; let ks ← parseKs ks wire.length
    pure (join (ks.map fun k =>
      let (ms, st) := readSession c t (wire.take k)
      s!"{ms.length}:{stopStr st}"))
  | "c08.hs.cuts", [t, wire, ks] => do
    let t ← t.toNat?; let wire ← parseBytes wire; let ks ← parseKs ks wire.length
    pure (join (ks.map fun k => hsCut t (wire.take k)))
  | "c08.flv.cuts", [t, file, ks] => do
    let t ← t.toNat?; let file ← Oracle.Flv.parseParts file; let ks ← parseKs ks file.length
    pure (join (ks.map fun k => flvCut t (file.take k)))
  | "c08.rtmp.wfaults", [t, b, c, ms, ks] => do
    let t ← t.toNat?; let b ← b.toNat?; let c ← c.toNat?; let ms ← Oracle.Rtmp.parseMsgs ms
    match Rtmp.writeAll c ms with
    | .ok W =>
      let ks ← parseKs ks W.length
      pure (join (ks.map fun k =>
        match writeSessionW t (goBufio b) c { budget := k } ms with
        | .ok (n, e, w) => s!"{n}:{errStr e}:{w.out.length}"
        | .err _ => "err"
        | .panic => "panic"))
    | _ => pure "panic"
  | "c08.rtmp.wpfaults", [t, b, c, ms, ks] => do
    let t ← t.toNat?; let b ← b.toNat?; let c ← c.toNat?; let ms ← Oracle.Rtmp.parseMsgs ms
    match Rtmp.writeAll c ms with
    | .ok W =>
      let ks ← parseKs ks W.length
      pure (join (ks.map fun k =>
        match writePacketSessionW t (goBufio b) c { budget := k } ms with
        | .ok (n, e, w) => s!"{n}:{errStr e}:{w.out.length}"
        | .err _ => "err"
        | .panic => "panic"))
    | _ => pure "panic"
  | "c08.hs.wfaults", [t, ks] => do
    let t ← t.toNat?; let ks ← parseKs ks 3073
    pure (join (ks.map fun k =>
      let (n, e, w) := hsWriteW t { budget := k } [3] (List.replicate 1536 0) (List.replicate 1536 0)
      s!"{n}:{errStr e}:{w.out.length}"))
  | "c08.flv.wfaults", [t, hv, ha, tags, ks] => do
    let t ← t.toNat?; let hv ← Oracle.Flv.parseBool hv; let ha ← Oracle.Flv.parseBool ha
    let tags ← Oracle.Flv.parseTags tags
    let ks ← parseKs ks (Flv.mux hv ha tags).length
    pure (join (ks.map fun k =>
      match flvMuxW t { budget := k } hv ha tags with
      | (none, e, w) => s!"0:0:{errStr e}:{w.out.length}"
      | (some n, e, w) => s!"1:{n}:{errStr e}:{w.out.length}"))
  | _, _ => none

end Oracle.Errors
