/-
  Oracle ops for AMF0 (model + spec). Value trees travel as one token without spaces:

    n<16 hex>            number (IEEE-754 bits)         z  null      u  undefined     e  objectEOF
    b0 | b1              boolean                        s<hex>  string  (S<len>.<seed> = LCG bytes, input only)
    o[k=v,k=v,…]         object      (k = hex of the key, empty for the empty key)
    a<count>[k=v,…]      ECMA array  (count field, properties)
    t[k=v,…]             strict array as the LIBRARY holds it (keyed properties)
    v[v,v,…]             strict array as the SPECIFICATION defines it (values only; spec trees only)
-/
import Oryx.Base.Text
import Oryx.Model.Amf0
import Oryx.Spec.Amf0
import Oryx.Spec.Amf0Rel
namespace Oracle.Amf0
open Oryx Oryx.Amf0 Oryx.Spec.Amf0

def hexOf (bs : Bytes) : String :=
  String.ofList (bs.foldr (fun b acc => hexDigit (b.toNat / 16) :: hexDigit (b.toNat % 16) :: acc) [])

def hex16 (n : Nat) : String :=
  String.ofList ((List.range 16).map (fun i => hexDigit ((n / 16 ^ (15 - i)) % 16)))

mutual
def valStr : Val → String
  | .num b => "n" ++ hex16 b.toNat
  | .bool b => if b then "b1" else "b0"
  | .str s => "s" ++ hexOf s
  | .null => "z"
  | .undef => "u"
  | .eof => "e"
  | .obj ps => "o[" ++ propsStr ps ++ "]"
  | .ecma c ps => "a" ++ toString c ++ "[" ++ propsStr ps ++ "]"
  | .strict ps => "t[" ++ propsStr ps ++ "]"
def propsStr : Props → String
  | .nil => ""
  | .cons k v .nil => hexOf k ++ "=" ++ valStr v
  | .cons k v tl => hexOf k ++ "=" ++ valStr v ++ "," ++ propsStr tl
end

mutual
def svalStr : SVal → String
  | .number b => "n" ++ hex16 b.toNat
  | .boolean b => if b then "b1" else "b0"
  | .string s => "s" ++ hexOf s
  | .null => "z"
  | .undefined => "u"
  | .object ps => "o[" ++ spropsStr ps ++ "]"
  | .ecmaArray c ps => "a" ++ toString c ++ "[" ++ spropsStr ps ++ "]"
  | .strictArray vs => "v[" ++ svalsStr vs ++ "]"
def spropsStr : SProps → String
  | .nil => ""
  | .cons k v .nil => hexOf k ++ "=" ++ svalStr v
  | .cons k v tl => hexOf k ++ "=" ++ svalStr v ++ "," ++ spropsStr tl
def svalsStr : SVals → String
  | .nil => ""
  | .cons v .nil => svalStr v
  | .cons v tl => svalStr v ++ "," ++ svalsStr tl
end

/-! parsing -/

def isHex (c : Char) : Bool := ('0' ≤ c ∧ c ≤ '9') || ('a' ≤ c ∧ c ≤ 'f')

def takeNat (cs : List Char) : Option (Nat × List Char) :=
  let ds := cs.takeWhile Char.isDigit
  if ds.isEmpty then none else some (ds.foldl (fun a c => a * 10 + (c.toNat - 48)) 0, cs.dropWhile Char.isDigit)

/-- A byte string: hex digits (maybe none) or `S<len>.<seed>`. -/
def takeBytes (cs : List Char) : Option (Bytes × List Char) :=
  match cs with
  | 'S' :: r => do
    let (n, r) ← takeNat r
    match r with
    | '.' :: r => do
      let (sd, r) ← takeNat r
      pure (lcgBytes n sd, r)
    | _ => none
  | _ => do
    let hs := cs.takeWhile isHex
    let bs ← ofHexChars hs
    pure (bs, cs.dropWhile isHex)

mutual
partial def parseVal (cs : List Char) : Option (Val × List Char) :=
  match cs with
  | 'n' :: r => do
    let bs ← ofHexChars (r.take 16)
    if bs.length ≠ 8 then none else pure (.num (UInt64.ofNat (ofBE bs)), r.drop 16)
  | 'b' :: '0' :: r => some (.bool false, r)
  | 'b' :: '1' :: r => some (.bool true, r)
  | 's' :: r => do let (bs, r) ← takeBytes r; pure (.str bs, r)
  | 'z' :: r => some (.null, r)
  | 'u' :: r => some (.undef, r)
  | 'e' :: r => some (.eof, r)
  | 'o' :: '[' :: r => do let (ps, r) ← parseProps r; pure (.obj ps, r)
  | 'a' :: r => do
    let (c, r) ← takeNat r
    match r with
    | '[' :: r => do let (ps, r) ← parseProps r; pure (.ecma c ps, r)
    | _ => none
  | 't' :: '[' :: r => do let (ps, r) ← parseProps r; pure (.strict ps, r)
  | _ => none
/-- After `[`: properties up to and including `]`. -/
partial def parseProps (cs : List Char) : Option (Props × List Char) :=
  match cs with
  | ']' :: r => some (.nil, r)
  | _ => do
    let (k, r) ← takeBytes cs
    match r with
    | '=' :: r => do
      let (v, r) ← parseVal r
      match r with
      | ',' :: r => do let (tl, r) ← parseProps r; pure (.cons k v tl, r)
      | ']' :: r => pure (.cons k v .nil, r)
      | _ => none
    | _ => none
end

mutual
partial def parseSVal (cs : List Char) : Option (SVal × List Char) :=
  match cs with
  | 'n' :: r => do
    let bs ← ofHexChars (r.take 16)
    if bs.length ≠ 8 then none else pure (.number (UInt64.ofNat (ofBE bs)), r.drop 16)
  | 'b' :: '0' :: r => some (.boolean false, r)
  | 'b' :: '1' :: r => some (.boolean true, r)
  | 's' :: r => do let (bs, r) ← takeBytes r; pure (.string bs, r)
  | 'z' :: r => some (.null, r)
  | 'u' :: r => some (.undefined, r)
  | 'o' :: '[' :: r => do let (ps, r) ← parseSProps r; pure (.object ps, r)
  | 'a' :: r => do
    let (c, r) ← takeNat r
    match r with
    | '[' :: r => do let (ps, r) ← parseSProps r; pure (.ecmaArray c ps, r)
    | _ => none
  | 'v' :: '[' :: r => do let (vs, r) ← parseSVals r; pure (.strictArray vs, r)
  | _ => none
partial def parseSProps (cs : List Char) : Option (SProps × List Char) :=
  match cs with
  | ']' :: r => some (.nil, r)
  | _ => do
    let (k, r) ← takeBytes cs
    match r with
    | '=' :: r => do
      let (v, r) ← parseSVal r
      match r with
      | ',' :: r => do let (tl, r) ← parseSProps r; pure (.cons k v tl, r)
      | ']' :: r => pure (.cons k v .nil, r)
      | _ => none
    | _ => none
partial def parseSVals (cs : List Char) : Option (SVals × List Char) :=
  match cs with
  | ']' :: r => some (.nil, r)
  | _ => do
    let (v, r) ← parseSVal cs
    match r with
    | ',' :: r => do let (tl, r) ← parseSVals r; pure (.cons v tl, r)
    | ']' :: r => pure (.cons v .nil, r)
    | _ => none
end

def readVal (s : String) : Option Val :=
  match parseVal s.toList with
  | some (v, []) => some v
  | _ => none

def readSVal (s : String) : Option SVal :=
  match parseSVal s.toList with
  | some (v, []) => some v
  | _ => none

def readKey (s : String) : Option Bytes :=
  if s == "-" then some [] else
  match takeBytes s.toList with
  | some (k, []) => some k
  | _ => none

def propsOf : Val → Option Props
  | .obj ps => some ps
  | .ecma _ ps => some ps
  | .strict ps => some ps
  | _ => none

def withProps (v : Val) (ps : Props) : Val :=
  match v with
  | .obj _ => .obj ps
  | .ecma c _ => .ecma c ps
  | .strict _ => .strict ps
  | v => v

def decStr (bs : Bytes) : String :=
  match Oryx.Amf0.decode bs with
  | .ok (v, rest) => s!"ok {bs.length - rest.length} {size v} {valStr v} {toHex rest}"
  | .err k => k.str
  | .panic => "panic"

def handle (op : String) (args : List String) : Option String :=
  match op, args with
  | "amf0.enc", [t] => do let v ← readVal t; pure (toHex (encode v))
  | "amf0.size", [t] => do let v ← readVal t; pure (toString (size v))
  | "amf0.wf", [t] => do let v ← readVal t; pure (toString (wf v))
  | "amf0.echo", [t] => do let v ← readVal t; pure (valStr v)
  | "amf0.dec", [h] => do let b ← parseBytes h; pure (decStr b)
  | "amf0.cost", [h] => do let b ← parseBytes h; pure (toString (cost b))
  | "amf0.set", [t, k, w] => do
    let v ← readVal t; let k ← readKey k; let w ← readVal w
    let ps ← propsOf v
    pure (valStr (withProps v (ps.set k w)))
  | "amf0.get", [t, k] => do
    let v ← readVal t; let k ← readKey k
    let ps ← propsOf v
    pure (match ps.get k with | some w => valStr w | none => "nil")
  | "amf0.compat", [t] => do let v ← readVal t; pure (toString (compat v))
  | "amf0.tospec", [t] => do
    let v ← readVal t
    pure (match toSpec v with | some s => svalStr s | none => "none")
  | "amf0.ofspec", [s] => do let v ← readSVal s; pure (valStr (ofSpec v))
  | "amf0.spec.enc", [s] => do let v ← readSVal s; pure (toHex (enc v))
  | "amf0.spec.wf", [s] => do let v ← readSVal s; pure (toString (swf v))
  | "amf0.spec.dec", [h] => do
    let b ← parseBytes h
    pure (match Spec.Amf0.decode b with
      | some (v, rest) => s!"ok {svalStr v} {toHex rest}"
      | none => "err")
  | _, _ => none

end Oracle.Amf0
