import Oryx.Base.Text
import Oryx.Model.Http
namespace Oracle.Http
open Oryx Oryx.Http

/-! Canonical one-token text of a JSON tree (no spaces):
`n` | `t` | `f` | `i<int>` | `r<int>:<hex>` | `s<hex>` | `[v,…]` | `{<hexkey>:v,…}` | `!` (unmarshalable). -/

def strHex (s : String) : String := if s.isEmpty then "" else toHex s.toUTF8.toList

def hexStr (cs : List Char) : Option String :=
  if cs.isEmpty then some "" else do
    let b ← ofHexChars cs
    String.fromUTF8? (ByteArray.mk b.toArray)

mutual
def canon : JVal → String
  | .null => "n"
  | .bool true => "t"
  | .bool false => "f"
  | .num n => s!"i{n}"
  | .real t x => s!"r{t}:{strHex x}"
  | .str s => "s" ++ strHex s
  | .arr l => "[" ++ canonList l ++ "]"
  | .obj m => "{" ++ canonMembers m ++ "}"
  | .bad => "!"
def canonList : JList → String
  | .nil => ""
  | .cons v .nil => canon v
  | .cons v t => canon v ++ "," ++ canonList t
def canonMembers : JMembers → String
  | .nil => ""
  | .cons k v .nil => strHex k ++ ":" ++ canon v
  | .cons k v t => strHex k ++ ":" ++ canon v ++ "," ++ canonMembers t
end

mutual
def hasBad : JVal → Bool
  | .bad => true
  | .arr l => hasBadList l
  | .obj m => hasBadMembers m
  | _ => false
def hasBadList : JList → Bool
  | .nil => false
  | .cons v t => hasBad v || hasBadList t
def hasBadMembers : JMembers → Bool
  | .nil => false
  | .cons _ v t => hasBad v || hasBadMembers t
end

def isHexC (c : Char) : Bool := c.isDigit || ('a' ≤ c && c ≤ 'f')
def isIntC (c : Char) : Bool := c.isDigit || c == '-'

def parseInt (cs : List Char) : Option Int := (String.ofList cs).toInt?

mutual
/-- Recursive descent with fuel (fuel = input length + 1 is never exhausted). -/
def pVal : Nat → List Char → Option (JVal × List Char)
  | 0, _ => none
  | _+1, 'n' :: r => some (.null, r)
  | _+1, 't' :: r => some (.bool true, r)
  | _+1, 'f' :: r => some (.bool false, r)
  | _+1, '!' :: r => some (.bad, r)
  | _+1, 'i' :: r => do
    let d := r.takeWhile isIntC
    let n ← parseInt d
    pure (.num n, r.dropWhile isIntC)
  | _+1, 'r' :: r => do
    let d := r.takeWhile isIntC
    let n ← parseInt d
    match r.dropWhile isIntC with
    | ':' :: r2 =>
      let x ← hexStr (r2.takeWhile isHexC)
      pure (.real n x, r2.dropWhile isHexC)
    | _ => none
  | _+1, 's' :: r => do
    let x ← hexStr (r.takeWhile isHexC)
    pure (.str x, r.dropWhile isHexC)
  | f+1, '[' :: r =>
    match r with
    | ']' :: r2 => some (.arr .nil, r2)
    | _ => do
      let (l, r2) ← pList f r
      pure (.arr l, r2)
  | f+1, '{' :: r =>
    match r with
    | '}' :: r2 => some (.obj .nil, r2)
    | _ => do
      let (m, r2) ← pMembers f r
      pure (.obj m, r2)
  | _+1, _ => none
def pList : Nat → List Char → Option (JList × List Char)
  | 0, _ => none
  | f+1, cs => do
    let (v, r) ← pVal f cs
    match r with
    | ',' :: r2 => do
      let (t, r3) ← pList f r2
      pure (.cons v t, r3)
    | ']' :: r2 => pure (.cons v .nil, r2)
    | _ => none
def pMembers : Nat → List Char → Option (JMembers × List Char)
  | 0, _ => none
  | f+1, cs => do
    let k ← hexStr (cs.takeWhile isHexC)
    match cs.dropWhile isHexC with
    | ':' :: r => do
      let (v, r2) ← pVal f r
      match r2 with
      | ',' :: r3 => do
        let (t, r4) ← pMembers f r3
        pure (.cons k v t, r4)
      | '}' :: r3 => pure (.cons k v .nil, r3)
      | _ => none
    | _ => none
end

def parseVal (s : String) : Option JVal :=
  let cs := s.toList
  match pVal (cs.length + 1) cs with
  | some (v, []) => some v
  | _ => none

/-- The concrete codec of the oracle: bodies are canonical texts `J<tree>`, `T<hex of text ++ "\n">`,
`P<hex cb>:<inner>`; the marshaller's error text is supplied by the harness (real `json.Marshal`). -/
def codec (merr : String) : Codec String where
  marshal v := if hasBad v then none else some ("J" ++ canon v)
  parse s := match s.toList with
    | 'J' :: r => parseVal (String.ofList r)
    | _ => none
  text s := "T" ++ strHex (s ++ "\n")
  jsonp cb t := "P" ++ strHex cb ++ ":" ++ t
  marshalErr _ := merr

def respStr (r : Resp String) : String :=
  s!"{r.status} {r.ctype} server={r.server} {r.body}"

def clientStr : ClientRes → String
  | .ok c => s!"ok {c}"
  | .fail c => s!"fail {c}"

def optHex (s : String) : Option String := if s == "-" then some "" else hexStr s.toList

def optNat (s : String) : Option (Option Nat) := if s == "-" then some none else s.toNat?.map some

def parseErr (kind code text status : String) : Option Err := do
  let code ← code.toInt?
  let text ← optHex text
  let st ← optNat status
  match kind with
  | "cplx" => some (.cplx code text)
  | "sys" => some (.sys code)
  | "app" => some (.app code text st)
  | "plain" => some (.plain text st)
  | _ => none

def handle (op : String) (args : List String) : Option String :=
  match op, args with
  | "http.data", [pid, cb, v, merr] => do
    let pid ← pid.toNat?; let cb ← optHex cb; let v ← parseVal v; let merr ← optHex merr
    pure (respStr (respondData (codec merr) pid v cb))
  | "http.err", [kind, code, text, status, cb] => do
    let e ← parseErr kind code text status; let cb ← optHex cb
    pure (respStr (respondErr (codec "") e cb))
  | "http.client", [status, body] => do
    let st ← status.toNat?
    pure (clientStr (apiRequest (codec "") st body))
  | "http.client.nostatus", [status, body] => do
    let st ← status.toNat?
    pure (clientStr (apiRequestIgnoringStatus (codec "") st body))
  | "http.parse", [body] => pure (clientStr (apiParse ((codec "").parse body)))
  | "http.canon", [v] => do let v ← parseVal v; pure (canon v)
  | _, _ => none

end Oracle.Http
