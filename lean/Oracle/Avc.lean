import Oryx.Base.Text
import Oryx.Model.Avc
import Oryx.Spec.Avc
namespace Oracle.Avc
open Oryx Oryx.Avc

def naluStr (n : Nalu) : String := s!"{n.refIdc.toNat}.{n.ty.toNat}.{toHex n.data}"
def nalusStr (l : List Nalu) : String := if l.isEmpty then "_" else ",".intercalate (l.map naluStr)

def parseNalu (s : String) : Option Nalu :=
  match s.splitOn "." with
  | [r, t, d] => do
    let r ← r.toNat?; let t ← t.toNat?; let d ← parseBytes d
    pure { refIdc := UInt8.ofNat r, ty := UInt8.ofNat t, data := d }
  | _ => none

def parseNalus (s : String) : Option (List Nalu) :=
  if s == "_" then some [] else (s.splitOn ",").mapM parseNalu

def parseRaws (s : String) : Option (List Bytes) :=
  if s == "_" then some [] else (s.splitOn ",").mapM parseBytes

def recStr (r : Record) : String :=
  s!"{r.version.toNat} {r.profile} {r.compat.toNat} {r.level.toNat} {r.lsm1.toNat} {nalusStr r.sps} {nalusStr r.pps}"

def handle (op : String) (args : List String) : Option String :=
  match op, args with
  | "avc.nalu.enc", [n] => do let n ← parseNalu n; pure (toHex (naluMarshal n))
  | "avc.nalu.dec", [h] => do let b ← parseBytes h; pure ((naluUnmarshal b).str naluStr)
  | "avc.rec.enc", [v, p, c, l, m, sps, pps] => do
    let v ← v.toNat?; let p ← p.toNat?; let c ← c.toNat?; let l ← l.toNat?; let m ← m.toNat?
    let sps ← parseNalus sps; let pps ← parseNalus pps
    let r : Record := ⟨UInt8.ofNat v, p, UInt8.ofNat c, UInt8.ofNat l, UInt8.ofNat m, sps, pps⟩
    pure (toHex (recordMarshal r))
  | "avc.rec.dec", [h] => do let b ← parseBytes h; pure ((recordUnmarshal b).str recStr)
  | "avc.rec.spec", [p, c, l, m, sps, pps] => do
    let p ← p.toNat?; let c ← c.toNat?; let l ← l.toNat?; let m ← m.toNat?
    let sps ← parseRaws sps; let pps ← parseRaws pps
    pure (toHex (Spec.Avc.recordBase (UInt8.ofNat p) (UInt8.ofNat c) (UInt8.ofNat l) m sps pps))
  -- the conformant record: `ext` = `-` (none) or chroma.luma.chroma.SPSEXT
  | "avc.rec.spec2", [p, c, l, m, sps, pps, ext] => do
    let p ← p.toNat?; let c ← c.toNat?; let l ← l.toNat?; let m ← m.toNat?
    let sps ← parseRaws sps; let pps ← parseRaws pps
    let e : Option Spec.Avc.HighExt ← (if ext == "-" then some none else
      match ext.splitOn "." with
      | [a, b, d, x] => do
        let a ← a.toNat?; let b ← b.toNat?; let d ← d.toNat?; let x ← parseRaws x
        pure (some ⟨a, b, d, x⟩)
      | _ => none)
    pure (toHex (Spec.Avc.record (UInt8.ofNat p) (UInt8.ofNat c) (UInt8.ofNat l) m sps pps e))
  | "avc.needsext", [p] => do let p ← p.toNat?; pure (if Spec.Avc.needsExt (UInt8.ofNat p) then "1" else "0")
  | "avc.nalu.spec", [r, t, d] => do
    let r ← r.toNat?; let t ← t.toNat?; let d ← parseBytes d
    pure (toHex (Spec.Avc.nalUnit r t d))
  | "avc.sample.enc", [n, xs] => do
    let n ← n.toNat?; let xs ← parseNalus xs; pure (toHex (sampleMarshal n xs))
  | "avc.sample.dec", [n, h] => do
    let n ← n.toNat?; let b ← parseBytes h; pure ((sampleUnmarshal n b).str nalusStr)
  | _, _ => none

end Oracle.Avc
